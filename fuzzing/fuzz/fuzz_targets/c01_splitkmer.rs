#![no_main]
use libfuzzer_sys::fuzz_target;

fuzz_target!(|data: &[u8]| {
    if let Err(m) = vfuzz::c01_splitkmer(data) {
        panic!("PROPERTY VIOLATED: {m}");
    }
});
