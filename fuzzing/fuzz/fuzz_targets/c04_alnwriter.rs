#![no_main]
use libfuzzer_sys::fuzz_target;

fuzz_target!(|data: &[u8]| {
    if let Err(m) = vfuzz::c04_alnwriter(data) {
        panic!("PROPERTY VIOLATED: {m}");
    }
});
