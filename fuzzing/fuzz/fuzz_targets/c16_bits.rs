#![no_main]
use libfuzzer_sys::fuzz_target;

fuzz_target!(|data: &[u8]| {
    if let Err(m) = vfuzz::c16_bits(data) {
        panic!("PROPERTY VIOLATED: {m}");
    }
});
