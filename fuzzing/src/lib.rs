//! Semantic oracles for the coverage-guided fuzz targets (thorough tier). Each function decodes
//! raw bytes into a structured case, runs the real code in-process (no global state, no I/O)
//! and returns Err(description) when the property is violated.

#[path = "../../harness/src/model.rs"]
#[allow(dead_code)]
pub mod model;

use std::borrow::Cow;
use std::collections::BTreeMap;

use ska::ska_dict::bit_encoding::{decode_kmer, UInt, IUPAC};
use ska::ska_dict::nthash::NtHashIterator;
use ska::ska_dict::split_kmer::SplitKmer;
use ska::ska_ref::aln_writer::AlnWriter;
use ska::QualFilter;

const ALPHA: &[u8] = b"ACGTACGTACGTACGTNnacgtACGTACGTAC";

fn decode_seq(bytes: &[u8]) -> Vec<u8> {
    bytes.iter().map(|b| ALPHA[(*b & 31) as usize]).collect()
}

fn k_of(b: u8) -> usize {
    5 + 2 * (b as usize % 30)
}

fn dict_via_splitkmer<T>(seq: &[u8], k: usize, rc: bool) -> Result<BTreeMap<Vec<u8>, u8>, String>
where
    T: for<'a> UInt<'a> + Into<u128>,
{
    let mut d: BTreeMap<u128, u8> = BTreeMap::new();
    let mut add = |kmer: T, base: u8, pal: bool| -> Result<(), String> {
        let key: u128 = kmer.into();
        if pal {
            let e = d.entry(key).or_insert(0);
            *e = match (*e, base) {
                (0, 0) | (0, 2) => b'W',
                (0, _) => b'S',
                (b'W', 0) | (b'W', 2) => b'W',
                (b'S', 1) | (b'S', 3) => b'S',
                _ => b'N',
            };
        } else {
            let e = d.entry(key).or_insert(0);
            *e = if *e == 0 { [b'A', b'C', b'T', b'G'][base as usize] } else { IUPAC[base as usize * 256 + *e as usize] };
            if *e == 0 {
                return Err("IUPAC table returned no code".into());
            }
        }
        Ok(())
    };
    if let Some(mut it) = SplitKmer::<T>::new(Cow::Borrowed(seq), seq.len(), None, k, rc, 0, QualFilter::NoFilter, false) {
        let (x, b, _) = it.get_curr_kmer();
        add(x, b, it.self_palindrome())?;
        while let Some((x, b, _)) = it.get_next_kmer() {
            add(x, b, it.self_palindrome())?;
        }
    }
    Ok(d.into_iter().map(|(x, c)| (model::unpack_arms(x, k), c)).collect())
}

/// C01: SplitKmer iteration folded into a dictionary == model dictionary
pub fn c01_splitkmer(data: &[u8]) -> Result<(), String> {
    if data.len() < 3 {
        return Ok(());
    }
    let k = k_of(data[0]);
    let rc = data[1] & 1 == 1;
    let wide = data[1] & 2 == 2 || k > 31;
    // records separated by byte 0xff
    let mut expected: model::SampleDict = BTreeMap::new();
    let mut got: BTreeMap<Vec<u8>, u8> = BTreeMap::new();
    for rec in data[2..].split(|b| *b == 0xff) {
        let seq = decode_seq(rec);
        for (a, m) in model::build_sample(&[seq.clone()], k, rc) {
            *expected.entry(a).or_insert(0) |= m;
        }
        let d = if wide { dict_via_splitkmer::<u128>(&seq, k, rc)? } else { dict_via_splitkmer::<u64>(&seq, k, rc)? };
        for (a, c) in d {
            let e = got.entry(a).or_insert(0);
            let m = model::mask_of_code(c).ok_or("bad code")? | if *e == 0 { 0 } else { model::mask_of_code(*e).unwrap() };
            *e = model::code_of_mask(m);
        }
    }
    let exp: BTreeMap<Vec<u8>, u8> = expected.into_iter().map(|(a, m)| (a, model::code_of_mask(m))).collect();
    if exp != got {
        return Err(format!("k={k} rc={rc} wide={wide}: dictionary {} entries, model {} entries, first difference {:?}",
            got.len(), exp.len(),
            exp.iter().find(|(a, c)| got.get(*a) != Some(*c)).map(|(a, c)| (model::show_arms(a), *c as char, got.get(a).map(|x| *x as char)))
                .or_else(|| got.iter().find(|(a, _)| !exp.contains_key(*a)).map(|(a, c)| (model::show_arms(a), '-', Some(*c as char))))));
    }
    Ok(())
}

fn bits_one<T>(s: &[u8], k: usize) -> Result<(), String>
where
    T: for<'a> UInt<'a> + Into<u128> + TryFrom<u128>,
{
    let conv = |x: u128| -> T { T::try_from(x).ok().expect("fits") };
    let h = (k - 1) / 2;
    let (arms, _) = model::split(s);
    for str_ in [arms.clone(), s.to_vec()] {
        let n = str_.len();
        let packed = model::pack_arms(&str_);
        let enc: u128 = T::encode_kmer(&str_).into();
        if enc != packed {
            return Err(format!("encode_kmer({})", String::from_utf8_lossy(&str_)));
        }
        if T::skalo_decode_kmer(conv(packed), n).as_bytes() != str_.as_slice() {
            return Err(format!("skalo_decode_kmer({})", String::from_utf8_lossy(&str_)));
        }
        let r: u128 = conv(packed).rev_comp(n).into();
        if r != model::pack_arms(&model::revcomp(&str_)) {
            return Err(format!("rev_comp({}, {n})", String::from_utf8_lossy(&str_)));
        }
        let back: u128 = conv(r).rev_comp(n).into();
        if back != packed {
            return Err("rev_comp not an involution".into());
        }
    }
    let (lm, um) = T::generate_masks(k);
    let (u, l) = decode_kmer(k, conv(model::pack_arms(&arms)), um, lm);
    if u.as_bytes() != &arms[..h] || l.as_bytes() != &arms[h..] {
        return Err("decode_kmer".into());
    }
    Ok(())
}

fn roll<T>(seq: &[u8], k: usize, rc: bool) -> Result<(), String>
where
    T: for<'a> UInt<'a> + Into<u128>,
{
    let h = (k - 1) / 2;
    let expected = model::windows(seq, k);
    let mut got = Vec::new();
    if let Some(mut it) = SplitKmer::<T>::new(Cow::Borrowed(seq), seq.len(), None, k, rc, 0, QualFilter::NoFilter, true) {
        let (x, b, f) = it.get_curr_kmer();
        got.push((x.into(), b, f, it.get_middle_pos(), it.get_hash(), it.self_palindrome()));
        while let Some((x, b, f)) = it.get_next_kmer() {
            got.push((x.into(), b, f, it.get_middle_pos(), it.get_hash(), it.self_palindrome()));
        }
    }
    if got.len() != expected.len() {
        return Err(format!("k={k} rc={rc}: {} k-mers rolled, {} windows", got.len(), expected.len()));
    }
    for ((st, w), g) in expected.iter().zip(got.iter()) {
        let c = model::canon(w, rc);
        let g0: u128 = g.0;
        if g0 != model::pack_arms(&c.arms) || g.1 != model::rank(c.middle) || g.2 != c.is_rc || g.3 != st + h || g.5 != c.self_rc {
            return Err(format!("k={k} rc={rc}: window at {st} rolled wrongly"));
        }
        if g.4 != NtHashIterator::new(w, k, rc).curr_hash() {
            return Err(format!("k={k} rc={rc}: rolled hash at {st} != fresh hash"));
        }
        if rc && NtHashIterator::new(&model::revcomp(w), k, true).curr_hash() != g.4 {
            return Err("hash not strand symmetric".into());
        }
    }
    Ok(())
}

/// C16: packing identities on the first k bases, rolling identities on the whole sequence
pub fn c16_bits(data: &[u8]) -> Result<(), String> {
    if data.len() < 3 {
        return Ok(());
    }
    let k = k_of(data[0]);
    let rc = data[1] & 1 == 1;
    let wide = data[1] & 2 == 2 || k > 31;
    let seq = decode_seq(&data[2..]);
    let up: Vec<u8> = seq.iter().map(|b| b.to_ascii_uppercase()).filter(|b| *b != b'N').collect();
    if up.len() >= k {
        if wide {
            bits_one::<u128>(&up[..k], k)?;
        } else {
            bits_one::<u64>(&up[..k], k)?;
        }
    }
    if wide {
        roll::<u128>(&seq, k, rc)
    } else {
        roll::<u64>(&seq, k, rc)
    }
}

/// C04: AlnWriter vs union-of-windows model
pub fn c04_alnwriter(data: &[u8]) -> Result<(), String> {
    if data.len() < 8 {
        return Ok(());
    }
    let k = k_of(data[0]);
    let h = (k - 1) / 2;
    let mask_ambig = data[1] & 1 == 1;
    let ncontig = 1 + (data[1] >> 1 & 3) as usize;
    let mut pos = 2;
    let mut reference: Vec<Vec<u8>> = Vec::new();
    for _ in 0..ncontig {
        if pos >= data.len() {
            break;
        }
        let len = 1 + (data[pos] as usize * (3 * k + 10)) / 256;
        pos += 1;
        let end = (pos + len).min(data.len());
        let mut c: Vec<u8> = data[pos..end].iter().map(|b| b"ACGT"[(*b & 3) as usize]).collect();
        while c.len() < len {
            c.push(b"ACGT"[c.len() % 4]);
        }
        pos = end;
        reference.push(c);
    }
    if reference.is_empty() {
        return Ok(());
    }
    let total: usize = reference.iter().map(|r| r.len()).sum();
    let long: Vec<usize> = (0..reference.len()).filter(|i| reference[*i].len() >= k).collect();
    let mut ms: BTreeMap<(usize, usize), u8> = BTreeMap::new();
    let mut reps: Vec<usize> = Vec::new();
    let syms = b"ACGTACGTRYSWKMBDHVN";
    while pos + 2 < data.len() {
        let (a, b, c) = (data[pos] as usize, data[pos + 1] as usize, data[pos + 2] as usize);
        pos += 3;
        if a & 0x80 != 0 {
            reps.push(((a & 0x7f) * 256 + b) % total);
        } else if !long.is_empty() {
            let ci = long[a % long.len()];
            let span = reference[ci].len() - k + 1;
            ms.insert((ci, h + (b * 256 + c) % span), syms[c % syms.len()]);
        }
    }
    reps.sort();
    reps.dedup();
    let mut offs = vec![0usize];
    for r in &reference {
        offs.push(offs.last().unwrap() + r.len());
    }
    let mut exp = vec![b'-'; total];
    for ((ci, p), _) in &ms {
        for q in (p - h)..=(p + h) {
            exp[offs[*ci] + q] = reference[*ci][q];
        }
    }
    for ((ci, p), b) in &ms {
        exp[offs[*ci] + p] = if mask_ambig && !model::is_acgt(*b) { b'N' } else { *b };
    }
    for r in &reps {
        if exp[*r] != b'-' {
            exp[*r] = b'N';
        }
    }
    let mut w = AlnWriter::new(&reference, k, &reps, mask_ambig);
    for ((ci, p), b) in &ms {
        w.write_split_kmer(*p, *ci, *b);
    }
    w.finalise();
    let mut w2 = w.clone();
    let got = w2.get_seq().to_vec();
    if got != exp {
        return Err(format!("k={k} contigs={:?} matches={:?} reps={:?}: got {} expected {}", reference.iter().map(|r| r.len()).collect::<Vec<_>>(), ms.keys().collect::<Vec<_>>(), reps, String::from_utf8_lossy(&got), String::from_utf8_lossy(&exp)));
    }
    Ok(())
}

pub fn run_target(name: &str, data: &[u8]) -> Result<(), String> {
    match name {
        "c01_splitkmer" => c01_splitkmer(data),
        "c04_alnwriter" => c04_alnwriter(data),
        "c16_bits" => c16_bits(data),
        _ => Err(format!("unknown target {name}")),
    }
}
