//! replay_fuzz <target> <file>... : run saved fuzz inputs through the oracle in a release build
//! (no debug assertions). exit 0 = all hold, 1 = a violation (printed), 2 = usage/IO.
fn main() {
    let args: Vec<String> = std::env::args().collect();
    if args.len() < 3 {
        eprintln!("usage: replay_fuzz <target> <file>...");
        std::process::exit(2);
    }
    let mut bad = 0;
    for f in &args[2..] {
        let data = match std::fs::read(f) {
            Ok(d) => d,
            Err(e) => {
                eprintln!("{f}: {e}");
                std::process::exit(2);
            }
        };
        let r = std::panic::catch_unwind(|| vfuzz::run_target(&args[1], &data));
        match r {
            Ok(Ok(())) => {}
            Ok(Err(m)) => {
                println!("FUZZ-VIOLATION target={} file={f}: {m}", args[1]);
                bad += 1;
            }
            Err(_) => {
                println!("FUZZ-VIOLATION target={} file={f}: panic in release build", args[1]);
                bad += 1;
            }
        }
    }
    std::process::exit(if bad > 0 { 1 } else { 0 });
}
