import sys; sys.path.insert(0,'/tmp/exp/py')
from model import *
SKA=sys.argv[1]; N=int(sys.argv[2]); seed=int(sys.argv[3])
rng=random.Random(seed)
os.makedirs('/tmp/exp/c11',exist_ok=True); os.chdir('/tmp/exp/c11')
stats=collections.Counter(); bad=0
def colset(out):
    lines=out.strip().split("\n"); seqs=lines[1::2]
    return (tuple(lines[0::2]),tuple(sorted(collections.Counter("".join(s[j] for s in seqs) for j in range(len(seqs[0]))).items())))
for it in range(N):
    ns=rng.choice([2,5,19,20,21,39,40,45]); base=rand_seq(rng,rng.randint(200,400)); files=[]
    for i in range(ns):
        t=list(base)
        for p in range(len(t)):
            if rng.random()<0.02: t[p]=rng.choice("ACGT")
        write_fasta('s%d.fa'%i,["".join(t)]); files.append('s%d.fa'%i)
    write_fasta('ref.fa',[base[:150],base[150:]],names=['a','b'])
    res={}
    for th in [1,2,3,4,8,16,1]:
        r=run([SKA,'build','-k','17','-o','b%d'%th,'--threads',str(th)]+files)
        if r.returncode!=0: res.setdefault('build',[]).append('fail'); continue
        hdr,rows=parse_nk(run([SKA,'nk','--full-info','b%d.skf'%th]).stdout)
        res.setdefault('build',[]).append((hdr['sample_names'],tuple(sorted((a,tuple(b)) for a,b in rows.items()))))
        r=run([SKA,'align','--threads',str(th)]+files); res.setdefault('align',[]).append(colset(r.stdout) if r.returncode==0 else 'fail')
        r=run([SKA,'map','ref.fa','--threads',str(th)]+files); res.setdefault('map1',[]).append(r.stdout if r.returncode==0 else 'fail')
        r=run([SKA,'map','ref.fa','b1.skf','--threads',str(th),'-f','vcf']); res.setdefault('mapvcf',[]).append(r.stdout if r.returncode==0 else 'fail')
        r=run([SKA,'distance','b1.skf','--threads',str(th)]); res.setdefault('dist',[]).append(r.stdout if r.returncode==0 else 'fail')
    stats['cases']+=1
    for kname,v in res.items():
        if len(set(v))>1 or v[0]=='fail': bad+=1; print("DIFF",kname,"ns",ns,[ 'fail' if x=='fail' else hash(x)%1000 for x in v])
print("done",N,"bad",bad,dict(stats))
