import sys; sys.path.insert(0,'/tmp/exp/py')
from model import *
SKA=sys.argv[1]; N=int(sys.argv[2]); seed=int(sys.argv[3])
rng=random.Random(seed)
os.makedirs('/tmp/exp/c17m',exist_ok=True); os.chdir('/tmp/exp/c17m')
stats=collections.Counter(); bad=0
for it in range(N):
    k=rng.choice([7,9,11,15,21,31,33]); ns=rng.randint(3,10)
    L=rng.randint(3*k,12*k)
    anc=rand_seq(rng,L)
    if rng.random()<0.3: # repeat
        i=rng.randrange(L-k); anc=anc+anc[i:i+rng.randint(k//2,2*k)]+rand_seq(rng,k)
    samples=[]
    rate=rng.choice([0.005,0.02,0.05])
    # shared variant sites
    variants=[]
    for p in range(len(anc)):
        if rng.random()<rate:
            t=rng.random()
            variants.append((p,'snp' if t<0.6 else 'del' if t<0.8 else 'ins', rng.choice("ACGT"), rng.randint(1,6), [rng.random()<0.5 for _ in range(ns)]))
    for i in range(ns):
        s=list(anc)
        for (p,t,b,ln,car) in reversed(variants):
            if car[i]:
                if t=='snp': s[p]=b
                elif t=='del': del s[p:p+ln]
                else: s[p:p]=list(rand_seq(random.Random(p),ln))
        s="".join(s)
        if rng.random()<0.1 and len(s)>2*k: s=s[:rng.randrange(k,len(s))]  # truncated sample -> missing data
        samples.append(s)
    files=[]
    for i,s in enumerate(samples):
        write_fasta('s%d.fa'%i,[s if rng.random()<0.5 else rc(s)]); files.append('s%d.fa'%i)
    r=run([SKA,'build','-k',str(k),'-o','x']+files)
    if r.returncode!=0: stats['buildfail']+=1; continue
    for f in ['out_snps.fas','out_indels.vcf']:
        if os.path.exists(f): os.remove(f)
    m=rng.choice([0.0,0.1,0.2,0.4])
    r=run([SKA,'lo','x.skf','out','-m',str(m),'--threads',str(rng.choice([1,2,4]))])
    stats['cases']+=1
    if r.returncode!=0:
        stats['rc%d'%r.returncode]+=1
        if 'panicked' in r.stderr:
            stats['panic']+=1; print("PANIC k=%d ns=%d"%(k,ns), [l for l in r.stderr.split("\n") if 'panicked' in l or 'src/' in l][:3])
        continue
    lines=open('out_snps.fas').read().strip().split("\n"); seqs=lines[1::2]
    if len(lines)<2*ns: seqs=seqs+['']*(ns-len(seqs))
    lens=set(len(s) for s in seqs)
    ok=len(lens)==1
    ncol=len(seqs[0])
    stats['cols']+=ncol
    if ok:
        for j in range(ncol):
            col=[s[j] for s in seqs]
            if len(set(c for c in col if c in "ACGT"))<2: ok=False; print("col not variable",col)
            miss=sum(1 for c in col if c not in "ACGT")/ns
            if miss>m+1e-6: ok=False; print("missing",miss,m,col)
    if not ok: bad+=1; print("ILLFORMED k=%d ns=%d lens=%s"%(k,ns,lens))
print("done",N,"bad",bad,dict(stats))
