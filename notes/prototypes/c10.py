import sys; sys.path.insert(0,'/tmp/exp/py')
from model import *
import math, shutil
SKA=sys.argv[1]; N=int(sys.argv[2]); seed=int(sys.argv[3])
rng=random.Random(seed)
os.makedirs('/tmp/exp/c10',exist_ok=True); os.chdir('/tmp/exp/c10')
AMB=set("RYSWKMBDHVN")
def nk(path):
    r=run([SKA,'nk','--full-info',path]); assert r.returncode==0, r.stderr
    return parse_nk(r.stdout)
def table_of(samples,k,use_rc):
    ds=[build_sample(r,k,use_rc) for r in samples]
    arms=set().union(*[set(d) for d in ds])
    return {a:[d.get(a,'-') for d in ds] for a in arms}
def model_filter(tab,n,thr,ftype,ambmiss,mask,nogap):
    out={}
    for a,row in tab.items():
        cnt=sum(1 for b in row if b!='-' and (not ambmiss or b not in AMB))
        if cnt<max(thr,1): continue
        if ftype=='no-const':
            sy=set(b for b in row if not (nogap and b=='-'))
            if len(sy)<2: continue
        elif ftype=='no-ambig':
            if any(b in AMB for b in row): continue
        elif ftype=='no-ambig-or-const':
            sy=set(b for b in row if b in "ACGT" or (b=='-' and not nogap))
            if len(sy)<2: continue
        out[a]=[('N' if (mask and b in AMB) else b) for b in row]
    return out
def cols(tab): return collections.Counter("".join(r) for r in tab.values())
def align_cols(path,args):
    r=run([SKA,'align',path]+args)
    if r.returncode!=0: return None
    lines=r.stdout.strip().split("\n"); seqs=lines[1::2]
    if not seqs or not seqs[0]: return collections.Counter()
    return collections.Counter("".join(s[j] for s in seqs) for j in range(len(seqs[0])))
bad=0; stats=collections.Counter()
for it in range(N):
    k=rng.choice([7,9,11,15,31,33,35]); use_rc=rng.random()<0.6
    ss=[] if use_rc else ['--single-strand']
    n0=rng.choice([2,4,4,8,3,5])
    base=rand_seq(rng,rng.randint(3*k,8*k))
    def mk():
        recs=[]
        t=list(base)
        for p in range(len(t)):
            if rng.random()<0.03: t[p]=rng.choice("ACGT")
        t="".join(t)
        if rng.random()<0.3: t=t[:rng.randrange(k+2,len(t))]
        recs.append(t if rng.random()<0.5 else rc(t))
        if rng.random()<0.5:
            i=rng.randrange(len(t)-k+1); w=t[i:i+k]; h=(k-1)//2
            recs.append(rand_seq(rng,2)+w[:h]+rng.choice("ACGT")+w[h+1:]+rand_seq(rng,2))
        if rng.random()<0.3: recs.append(rand_seq(rng,rng.randint(k+1,3*k)))
        return recs
    allsamples={}  # name -> recs
    files={}  # fname -> list of names (model) 
    tabs={}
    def build(fname,names):
        fl=[]
        for nm in names:
            write_fasta(nm+'.fa',allsamples[nm]); fl.append(nm+'.fa')
        r=run([SKA,'build','-k',str(k),'-o',fname]+fl+ss); assert r.returncode==0,r.stderr
        tabs[fname]=(list(names),table_of([allsamples[nm] for nm in names],k,use_rc))
    ctr=[0]
    def newnames(m):
        out=[]
        for _ in range(m):
            nm='s%d'%ctr[0]; ctr[0]+=1; allsamples[nm]=mk(); out.append(nm)
        return out
    build('f0',newnames(n0))
    cur='f0'; hist=[]
    ok=True
    for step in range(rng.randint(1,6)):
        names,tab=tabs[cur]
        op=rng.choice(['merge','delete','weed','rweed','filter','filter'])
        nxt='f%d'%(step+1)
        if op=='merge':
            m=rng.randint(1,3); nn=newnames(m); build('g%d'%step,nn)
            gn,gt=tabs['g%d'%step]
            order=rng.random()<0.5
            a,b=(cur,'g%d'%step) if order else ('g%d'%step,cur)
            r=run([SKA,'merge',a+'.skf',b+'.skf','-o',nxt]); 
            if r.returncode!=0: print("MERGE FAIL",r.stderr[-200:]); ok=False;break
            (an,at),(bn,bt)=tabs[a],tabs[b]
            t={}
            for arms in set(at)|set(bt):
                t[arms]=at.get(arms,['-']*len(an))+bt.get(arms,['-']*len(bn))
            tabs[nxt]=(an+bn,t)
        elif op=='delete':
            if len(names)<2: continue
            dn=rng.sample(names,rng.randint(1,len(names)-1))
            shutil.copy(cur+'.skf',nxt+'.skf')
            if rng.random()<0.5:
                open('del.txt','w').write("\n".join(dn)+"\n"); r=run([SKA,'delete','-s',nxt+'.skf','-f','del.txt'])
            else: r=run([SKA,'delete','-s',nxt+'.skf']+dn)
            if r.returncode!=0: print("DELETE FAIL",r.stderr[-200:]); ok=False;break
            keep=[i for i,nm in enumerate(names) if nm not in dn]
            t={a:[row[i] for i in keep] for a,row in tab.items()}
            t={a:row for a,row in t.items() if any(b!='-' for b in row)}
            tabs[nxt]=([names[i] for i in keep],t)
        elif op in('weed','rweed'):
            src=rng.choice(list(allsamples.values()))
            wrec=[]
            for s in src:
                if len(s)>k+2:
                    i=rng.randrange(len(s)-k); j=rng.randint(i+k,len(s)); w=s[i:j]
                    wrec.append(w if rng.random()<0.5 else rc(w))
            if rng.random()<0.3: wrec.append(rand_seq(rng,2*k))
            if not wrec: continue
            write_fasta('weed.fa',wrec)
            wk=set()
            for s in wrec:
                for i,w in windows(s,k): wk.add(canon(w,use_rc)[0])
            if not wk: continue
            shutil.copy(cur+'.skf',nxt+'.skf')
            r=run([SKA,'weed',nxt+'.skf','weed.fa','--min-freq','0']+(['--reverse'] if op=='rweed' else []))
            if r.returncode!=0: print("WEED FAIL",r.stderr[-200:]); ok=False;break
            t={a:row for a,row in tab.items() if (a in wk)==(op=='rweed')}
            tabs[nxt]=(names,t)
        else:
            n=len(names)
            fs=[0.0,1.0]+([0.5] if n%2==0 else [])+([0.25,0.75] if n%4==0 else [])
            f=rng.choice(fs); thr=int(round(n*f))
            ftype=rng.choice(['no-filter','no-const','no-ambig','no-ambig-or-const'])
            ambmiss=rng.random()<0.5; mask=rng.random()<0.3; nogap=rng.random()<0.3
            shutil.copy(cur+'.skf',nxt+'.skf')
            args=['--min-freq',str(f),'--filter',ftype]+(['--filter-ambig-as-missing'] if ambmiss else [])+(['--ambig-mask'] if mask else [])+(['--no-gap-only-sites'] if nogap else [])
            r=run([SKA,'weed',nxt+'.skf']+args)
            if r.returncode!=0: print("FILTER FAIL",r.stderr[-200:]); ok=False;break
            if thr>0 or ftype!='no-filter' or mask or nogap:
                t=model_filter(tab,n,thr,ftype,ambmiss,mask,nogap)
            else: t=dict(tab)
            tabs[nxt]=(names,t)
            op=op+str(args)
        hist.append(op); cur=nxt
        hdr,rows=nk(cur+'.skf')
        names,tab=tabs[cur]
        if rows!=tab or hdr['sample_names']!=str(names).replace("'",'"'):
            ok=False; print("TABLE MISMATCH after",hist,"k=%d rc=%s"%(k,use_rc)); 
            miss=[a for a in tab if a not in rows][:3]; extra=[a for a in rows if a not in tab][:3]; diff=[(a,tab[a],rows[a]) for a in tab if a in rows and rows[a]!=tab[a]][:3]
            print(" missing",miss,"extra",extra,"diff",diff); break
        if not tab: break
    stats['cases']+=1
    for h in hist: stats[h.split('[')[0]]+=1
    if ok and tabs[cur][1]:
        names,tab=tabs[cur]; n=len(names)
        fs=[0.0,1.0]+[(j-0.5)/n for j in range(1,n+1)]
        f=rng.choice(fs); thr=math.ceil(n*f-1e-9) if f in(0.0,1.0) else math.ceil(n*f)
        ftype=rng.choice(['no-filter','no-const','no-ambig','no-ambig-or-const'])
        ambmiss=rng.random()<0.5; mask=rng.random()<0.3; nogap=rng.random()<0.3
        args=['--min-freq',repr(f),'--filter',ftype]+(['--filter-ambig-as-missing'] if ambmiss else [])+(['--ambig-mask'] if mask else [])+(['--no-gap-only-sites'] if nogap else [])
        got=align_cols(cur+'.skf',args)
        exp=cols(model_filter(tab,n,thr,ftype,ambmiss,mask,nogap))
        if got!=exp:
            ok=False; print("ALIGN MISMATCH after",hist,args,"k=%d n=%d"%(k,n)); print(" got-exp",list((got-exp).items())[:5]," exp-got",list((exp-got).items())[:5])
    if not ok:
        bad+=1
        if bad>5: break
print("done",N,"bad",bad,dict(stats))
