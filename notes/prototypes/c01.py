import sys; sys.path.insert(0,'/tmp/exp/py')
from model import *
SKA=sys.argv[1]; N=int(sys.argv[2]); seed=int(sys.argv[3])
rng=random.Random(seed)
os.makedirs('/tmp/exp/c01',exist_ok=True); os.chdir('/tmp/exp/c01')
bad=0; noseq=0
for it in range(N):
    k=rng.choice(range(5,64,2)); use_rc=rng.random()<0.6
    nrec=rng.randint(1,4); recs=[]
    for r in range(nrec):
        mode=rng.random()
        if mode<0.3: L=rng.choice([k-1,k,k+1,k+2,2*k,2*k+1])
        else: L=rng.randint(1,3*k+10)
        alpha="ACGT" if rng.random()<0.5 else "AC" if rng.random()<0.3 else "ACGTN"
        s=rand_seq(rng,L,alpha)
        # plant Ns at special spots
        if rng.random()<0.4 and L>k+1:
            p=L-k-1 if rng.random()<0.5 else rng.randrange(L)
            s=s[:p]+'N'+s[p+1:]
        # plant repeats w/ different middles
        if rng.random()<0.3 and recs:
            src=rng.choice(recs)
            if len(src)>=k:
                i=rng.randrange(len(src)-k+1); w=src[i:i+k].upper()
                if 'N' not in w:
                    h=(k-1)//2; w=w[:h]+rng.choice("ACGT")+w[h+1:]
                    if rng.random()<0.5: w=rc(w)
                    s=s+w
        # palindromic arms
        if rng.random()<0.15:
            h=(k-1)//2; a=rand_seq(rng,h); s=s+a+rng.choice("ACGT")+rc(a)
        # case
        if rng.random()<0.3: s="".join(c.lower() if rng.random()<0.5 else c for c in s)
        recs.append(s)
    write_fasta('in.fa',recs,width=rng.choice([None,None,7,60]))
    exp=build_sample(recs,k,use_rc)
    args=[SKA,'build','-k',str(k),'-o','out','in.fa']+([] if use_rc else ['--single-strand'])
    if os.path.exists('out.skf'): os.remove('out.skf')
    r=run(args)
    if not exp:
        if r.returncode==0: print("UNEXPECTED success on empty",k,recs); bad+=1
        noseq+=1; continue
    if r.returncode!=0:
        print("BUILD FAIL",k,use_rc,recs,r.stderr[-300:]); bad+=1; continue
    r=run([SKA,'nk','--full-info','out.skf'])
    hdr,rows=parse_nk(r.stdout)
    got={a:b[0] for a,b in rows.items()}
    if got!=exp or int(hdr['k-mers'])!=len(exp) or hdr['sample_kmers']!='[%d]'%len(exp) or hdr['k']!=str(k) or hdr['rc']!=str(use_rc).lower() or hdr['k_bits']!=('64' if k<=31 else '128'):
        bad+=1
        miss={a:exp[a] for a in exp if a not in got}; extra={a:got[a] for a in got if a not in exp}; diff={a:(exp[a],got[a]) for a in exp if a in got and got[a]!=exp[a]}
        print("MISMATCH k=%d rc=%s recs=%s\n missing=%s extra=%s diff=%s hdr=%s"%(k,use_rc,recs,miss,extra,diff,hdr))
        if bad>5: break
print("done",N,"bad",bad,"noseq",noseq)
