import random, subprocess, os, sys, itertools, collections
ORDER={'A':0,'C':1,'T':2,'G':3}
COMP={'A':'T','C':'G','G':'C','T':'A'}
IUPAC={frozenset('A'):'A',frozenset('C'):'C',frozenset('G'):'G',frozenset('T'):'T',
 frozenset('AG'):'R',frozenset('CT'):'Y',frozenset('CG'):'S',frozenset('AT'):'W',frozenset('GT'):'K',frozenset('AC'):'M',
 frozenset('CGT'):'B',frozenset('AGT'):'D',frozenset('ACT'):'H',frozenset('ACG'):'V',frozenset('ACGT'):'N'}
CODESET={v:k for k,v in IUPAC.items()}
def rc(s): return "".join(COMP[c] for c in reversed(s))
def key(s): return [ORDER[c] for c in s]
def windows(seq,k):
    """yield (start, kmer) for all windows of k consecutive non-N bases"""
    s=seq.upper()
    for i in range(len(s)-k+1):
        w=s[i:i+k]
        if 'N' not in w: yield i,w
def split(w):
    h=(len(w)-1)//2
    return w[:h]+w[h+1:], w[h]
def canon(w, use_rc):
    """returns (arms, middle, is_rc, palindrome)"""
    arms,m=split(w)
    if not use_rc: return arms,m,False,False
    r=rc(w); rarms,rm=split(r)
    if key(arms)>key(rarms): return rarms,rm,True,False
    return arms,m,False,(arms==rarms)
def build_sample(records,k,use_rc):
    d=collections.defaultdict(set)
    for seq in records:
        for i,w in windows(seq,k):
            arms,m,_,pal=canon(w,use_rc)
            d[arms].add(m)
            if pal: d[arms].add(COMP[m])
    return {a:IUPAC[frozenset(s)] for a,s in d.items()}
def parse_nk(text):
    lines=text.strip().split("\n")
    hdr={}
    rows={}
    for l in lines:
        if '=' in l and '\t' not in l:
            a,b=l.split('=',1); hdr[a]=b
        elif '\t' in l:
            u,lo,b=l.split('\t'); 
            assert (u+lo) not in rows, "duplicate row"
            rows[u+lo]=b.split(',')
    return hdr,rows
def write_fasta(path,records,width=None,names=None):
    with open(path,'w') as f:
        for i,s in enumerate(records):
            f.write(">%s\n"%(names[i] if names else "r%d"%i))
            if width:
                for j in range(0,len(s),width): f.write(s[j:j+width]+"\n")
            else: f.write(s+"\n")
def run(args,**kw):
    return subprocess.run(args,capture_output=True,text=True,**kw)
def rand_seq(rng,n,alpha="ACGT"): return "".join(rng.choice(alpha) for _ in range(n))
