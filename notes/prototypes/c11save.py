import sys; sys.path.insert(0,'/tmp/exp/py')
from model import *
import shutil
exec(open('/tmp/exp/py/c11lo2.py').read().split("for it in range(N):")[0].replace("os.makedirs('/tmp/exp/c11lo2',exist_ok=True); os.chdir('/tmp/exp/c11lo2')","os.makedirs('/tmp/exp/c11save',exist_ok=True); os.chdir('/tmp/exp/c11save')"))
best=None
for it in range(N):
    k=rng.choice([15,17,21]); ns=rng.randint(4,8)
    L=rng.randint(6*k,12*k); anc=rand_seq(rng,L)
    variants=[]
    for p in range(len(anc)):
        if rng.random()<0.03:
            t=rng.random(); variants.append((p,'snp' if t<0.7 else 'del' if t<0.85 else 'ins', rng.choice("ACGT"), rng.randint(1,6), [rng.random()<0.5 for _ in range(ns)]))
    samples=[]
    for i in range(ns):
        s=list(anc)
        for (p,t,b,ln,car) in reversed(variants):
            if car[i]:
                if t=='snp': s[p]=b
                elif t=='del': del s[p:p+ln]
                else: s[p:p]=list(rand_seq(random.Random(p),ln))
        samples.append("".join(s))
    files=[]
    for i,s in enumerate(samples):
        write_fasta('s%d.fa'%i,[s]); files.append('s%d.fa'%i)
    write_fasta('ref.fa',[anc],names=['ref'])
    r=run([SKA,'build','-k',str(k),'-o','x']+files)
    if r.returncode!=0: continue
    outs=[semantic(1,False)[0] for _ in range(12)]
    nd=len(set(outs))
    c=collections.Counter(outs).most_common(1)[0][1]
    if nd>1 and (best is None or c<best[0]):
        best=(c,k,ns); 
        os.makedirs('/verif/notes/c11-lo-nondet',exist_ok=True)
        for f in files+['ref.fa','x.skf']: shutil.copy(f,'/verif/notes/c11-lo-nondet/'+f)
        open('/verif/notes/c11-lo-nondet/README.txt','w').write("k=%d samples=%d: `ska lo x.skf out --threads 1` repeated 12 times gave %d distinct SNP column sets (most common seen %d/12)\n"%(k,ns,nd,c))
        print("saved",best,nd)
        if c<=6: break
print(best)
