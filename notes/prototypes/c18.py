import sys; sys.path.insert(0,'/tmp/exp/py')
from model import *
exec(open('/tmp/exp/py/c17.py').read().split("bad=0; stats")[0].split("rng=random.Random(seed)")[1].replace("os.makedirs('/tmp/exp/c17',exist_ok=True); os.chdir('/tmp/exp/c17')",""))
SKA=sys.argv[1]; N=int(sys.argv[2]); seed=int(sys.argv[3])
rng=random.Random(seed)
os.makedirs('/tmp/exp/c18',exist_ok=True); os.chdir('/tmp/exp/c18')
bad=0; stats=collections.Counter()
for it in range(N):
    k=rng.choice([11,15,21,31]); ns=rng.randint(3,8)
    nind=rng.randint(1,3); gap=4*k
    L=2*2*k+(nind-1)*gap+rng.randint(0,3*k)+nind*rng.randint(0,k)+nind*10
    # generate ancestor WITH all insertions present (long form), then deletions give the short forms
    anc=gen_unique(rng,L,k-1)
    if anc is None: continue
    sites=[]; p=2*k+rng.randint(0,k//2)
    while len(sites)<nind and p<L-2*k-10:
        ln=rng.randint(1,min(10,k-1)); sites.append((p,ln)); p+=ln+gap+rng.randint(0,k)
    if not sites: continue
    carriers=[]
    for (p,ln) in sites:
        while True:
            c=[rng.random()<0.5 for _ in range(ns)]
            if any(c) and not all(c): break
        carriers.append(c)   # True = has deletion (short form)
    samples=[]
    for i in range(ns):
        s=anc
        for (p,ln),c in reversed(list(zip(sites,carriers))):
            if c[i]: s=s[:p]+s[p+ln:]
        samples.append(s)
    pos={}; okp=True
    for s in set(samples):
        seen=set()
        for j in range(len(s)-(k-1)+1):
            w=s[j:j+k-1]
            if w in seen or rc(w) in seen or w==rc(w): okp=False
            seen.add(w)
    if not okp: stats['precond']+=1; continue
    files=[]
    for i,s in enumerate(samples):
        write_fasta('s%d.fa'%i,[s if rng.random()<0.5 else rc(s)]); files.append('s%d.fa'%i)
    r=run([SKA,'build','-k',str(k),'-o','x']+files); assert r.returncode==0
    if os.path.exists('out_indels.vcf'): os.remove('out_indels.vcf')
    thr=rng.choice([1,1,2,4])
    r=run([SKA,'lo','x.skf','out','--threads',str(thr)])
    stats['cases']+=1
    if r.returncode!=0:
        print("LO FAIL",k,ns,sites,r.stderr[-200:]); stats['lofail']+=1; continue
    recs=[l.split("\t") for l in open('out_indels.vcf').read().strip().split("\n") if not l.startswith("#")]
    matched=set(); ok=True; msg=""
    for f in recs:
        REF,ALT=f[3],f[4]; info=dict(x.split("=") for x in f[6].split(";")); gts=f[9:]
        b,a=info['before'],info['after']
        r_=REF.replace('-',''); a_=ALT.replace('-','')
        s0=b+r_+a; s1=b+a_+a
        for i,gt in enumerate(gts):
            has0 = s0 in samples[i] or rc(s0) in samples[i]
            has1 = s1 in samples[i] or rc(s1) in samples[i]
            if gt=='0' and not (has0 and not has1): ok=False; msg="gt0 wrong s%d"%i
            if gt=='1' and not (has1 and not has0): ok=False; msg="gt1 wrong s%d"%i
            if gt=='.' and (has0!=has1): ok=False; msg="gt. but has allele s%d (%s,%s)"%(i,has0,has1)
            if gt=='0/1' and not(has0 and has1): ok=False; msg="het"
        # correspond to planted
        hit=None
        for idx,((p,ln),c) in enumerate(zip(sites,carriers)):
            # samples with gt for long allele = non-carriers
            longallele = r_ if len(r_)>len(a_) else a_
            if abs(len(r_)-len(a_))==ln:
                long_gt = '0' if len(r_)>len(a_) else '1'
                if all((gts[i]==long_gt)==(not c[i]) for i in range(ns)): hit=idx
        if hit is None: ok=False; msg="no planted match REF=%s ALT=%s gts=%s"%(REF,ALT,gts)
        elif hit in matched: ok=False; msg="duplicate"
        else: matched.add(hit)
    stats['planted']+=len(sites); stats['found']+=len(matched); stats['records']+=len(recs)
    if not ok:
        bad+=1; print("MISMATCH",msg,"k=%d ns=%d sites=%s carriers=%s"%(k,ns,sites,carriers)); print(open('out_indels.vcf').read()[-500:])
        if bad>6: break
print("done",N,"bad",bad,dict(stats))
