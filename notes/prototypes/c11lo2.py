import sys; sys.path.insert(0,'/tmp/exp/py')
from model import *
SKA=sys.argv[1]; N=int(sys.argv[2]); seed=int(sys.argv[3]); mode=sys.argv[4]
rng=random.Random(seed)
os.makedirs('/tmp/exp/c11lo2',exist_ok=True); os.chdir('/tmp/exp/c11lo2')
stats=collections.Counter()
def semantic(th,ref):
    for f in ['o_snps.fas','o_snps.vcf','o_pseudo_genomes.fas','o_indels.vcf']:
        if os.path.exists(f): os.remove(f)
    r=run([SKA,'lo','x.skf','o','-m','0.3','--threads',str(th)]+(['-r','ref.fa'] if ref else []))
    if r.returncode!=0: return ('fail',)
    snp=open('o_snps.fas').read().strip().split("\n")[1::2]
    cols=tuple("".join(s[j] for s in snp) for j in range(len(snp[0]))) if snp and snp[0] else ()
    if not ref:
        def norm(c): return min(c,"".join({'A':'T','C':'G','G':'C','T':'A'}.get(x,x) for x in c))
        cols=tuple(sorted(norm(c) for c in cols))
    vcf=()
    if ref:
        v=[]
        for l in open('o_snps.vcf'):
            if l.startswith('#'): continue
            f=l.rstrip("\n").split("\t"); al=[f[3]]+f[4].split(",")
            v.append((f[1],f[3],tuple(al[int(g)] if g!='.' else '.' for g in f[9:])))
        vcf=tuple(v)
    ind=[]
    for l in open('o_indels.vcf'):
        if l.startswith('#'): continue
        f=l.rstrip("\n").split("\t"); ind.append((f[3],f[4],f[6],tuple(f[9:])))
    return (cols,vcf,tuple(sorted(ind)))
for it in range(N):
    k=rng.choice([15,17,21,31]); ns=rng.randint(3,10)
    L=rng.randint(6*k,20*k); anc=rand_seq(rng,L)
    if mode=='messy' and rng.random()<0.3:
        i=rng.randrange(L-2*k); anc=anc+anc[i:i+rng.randint(k,2*k)]+rand_seq(rng,2*k)
    rate=rng.choice([0.003,0.01,0.03]) if mode=='messy' else 0; variants=[]
    if mode=='messy':
        for p in range(len(anc)):
            if rng.random()<rate:
                t=rng.random(); variants.append((p,'snp' if t<0.7 else 'del' if t<0.85 else 'ins', rng.choice("ACGT"), rng.randint(1,6), [rng.random()<0.5 for _ in range(ns)]))
    else:
        p=2*k
        while p<len(anc)-2*k:
            t=rng.random(); variants.append((p,'snp' if t<0.6 else 'del', rng.choice([c for c in "ACGT" if c!=anc[p]]), rng.randint(1,6), [i%2==0 for i in range(ns)] if rng.random()<0.3 else [rng.random()<0.5 for _ in range(ns)]))
            p+=4*k+rng.randint(0,k)
    samples=[]
    for i in range(ns):
        s=list(anc)
        for (p,t,b,ln,car) in reversed(variants):
            if car[i]:
                if t=='snp': s[p]=b
                elif t=='del': del s[p:p+ln]
                else: s[p:p]=list(rand_seq(random.Random(p),ln))
        samples.append("".join(s))
    files=[]
    for i,s in enumerate(samples):
        write_fasta('s%d.fa'%i,[s if rng.random()<0.5 else rc(s)]); files.append('s%d.fa'%i)
    write_fasta('ref.fa',[anc],names=['ref'])
    r=run([SKA,'build','-k',str(k),'-o','x']+files)
    if r.returncode!=0: continue
    for ref in (True,False):
        outs=[semantic(th,ref) for th in [1,1,1,2,4,8]]
        stats['cases_ref%s'%ref]+=1
        if len(set(outs))>1:
            kinds=set()
            for o in outs[1:]:
                if o!=outs[0]:
                    if o[0]=='fail' or outs[0][0]=='fail': kinds.add('fail')
                    else:
                        for j,nm in enumerate(['cols','vcf','indels']):
                            if o[j]!=outs[0][j]: kinds.add(nm)
            stats['nondet_ref%s_%s'%(ref,"+".join(sorted(kinds)))]+=1
            sameT1 = len(set(outs[:3]))>1
            stats['nondet_ref%s_even_single_thread'%ref]+= 1 if sameT1 else 0
            if stats['printed']<3 and 'cols' in kinds:
                stats['printed']+=1
                print("k=%d ns=%d L=%d ref=%s"%(k,ns,L,ref)); 
                for o in sorted(set(outs)): print("  cols",o[0][:12],"nvcf",len(o[1]),"nind",len(o[2]))
print("done",N,dict(stats))
