import sys; sys.path.insert(0,'/tmp/exp/py')
from model import *
import math
SKA=sys.argv[1]; N=int(sys.argv[2]); seed=int(sys.argv[3])
rng=random.Random(seed)
os.makedirs('/tmp/exp/c20',exist_ok=True); os.chdir('/tmp/exp/c20')
stats=collections.Counter(); bad=0
for it in range(N):
    k=rng.choice([15,21,31,33,41]); use_rc=rng.random()<0.7
    G=rng.randint(2000,6000); g=rand_seq(rng,G); cov=rng.choice([10,20,30,50,80]); err=rng.choice([0,0.005,0.01,0.03]); RL=rng.choice([80,100,150])
    nreads=int(G*cov/RL)
    reads=[]
    for i in range(nreads):
        p=rng.randrange(G-RL+1); s=list(g[p:p+RL])
        for j in range(RL):
            if rng.random()<err: s[j]=rng.choice("ACGT")
            elif rng.random()<0.0005: s[j]='N'
        s="".join(s)
        if rng.random()<0.5: s=rc(s.replace('N','A')) if 'N' not in s else s
        reads.append(s)
    half=len(reads)//2
    for fn,rs in (('r1.fq',reads[:half]),('r2.fq',reads[half:])):
        with open(fn,'w') as f:
            for i,s in enumerate(rs): f.write("@r%d\n%s\n+\n%s\n"%(i,s,'I'*len(s)))
    # oracle counts
    cnt=collections.Counter()
    for s in reads:
        for i,w in windows(s,k):
            cnt[canon(w,use_rc)[0]]+=1
    hist=collections.Counter(cnt.values())
    last=max([c for c in hist if c<=1000 and hist[c]>=50],default=0)
    exp_rows=[(c,hist.get(c,0)) for c in range(1,last+1)]
    r=run([SKA,'cov','r1.fq','r2.fq','-k',str(k)]+([] if use_rc else ['--single-strand']))
    stats['cases']+=1
    if r.returncode!=0:
        stats['fitfail']+=1; 
        msg=[l for l in r.stderr.split("\n") if 'panicked' in l or 'Couldn' in l][:2]
        stats[str(msg)[:80]]+=1
        continue
    rows=[l.split("\t") for l in r.stdout.strip().split("\n")[1:]]
    got=[(int(a),int(b)) for a,b,c,d in rows]
    cutoff=int([l for l in r.stderr.split("\n") if l.startswith("Estimated cutoff")][0].split("\t")[1])
    labels_ok=all((d=='Error')==(int(a)<cutoff) for a,b,c,d in rows)
    if got!=exp_rows or not labels_ok or cutoff>len(rows):
        bad+=1; print("MISMATCH k=%d rc=%s cov=%d err=%s"%(k,use_rc,cov,err), got[:5],exp_rows[:5],len(got),len(exp_rows),cutoff,labels_ok)
    stats['cut%d'%min(cutoff,20)]+=1
print("done",N,"bad",bad,dict(stats))
