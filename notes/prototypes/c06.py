import sys; sys.path.insert(0,'/tmp/exp/py')
from model import *
import math
exec(open('/tmp/exp/py/c10.py').read().split("bad=0; stats")[0].split("rng=random.Random(seed)")[1].replace("os.makedirs('/tmp/exp/c10',exist_ok=True); os.chdir('/tmp/exp/c10')",""))
SKA=sys.argv[1]; N=int(sys.argv[2]); seed=int(sys.argv[3])
rng=random.Random(seed)
os.makedirs('/tmp/exp/c06',exist_ok=True); os.chdir('/tmp/exp/c06')
bad=0; stats=collections.Counter()
codes=list(CODESET.keys())
for it in range(N):
    k=rng.choice([7,11,31,33]); h=(k-1)//2; n=rng.randint(1,12); nrows=rng.randint(1,30)
    pg=rng.choice([0.1,0.3,0.6]); pa=rng.choice([0.0,0.2,0.6])
    tab={}
    while len(tab)<nrows:
        arms=rand_seq(rng,2*h)
        if arms in tab: continue
        kind=rng.random()
        if kind<0.2: b=rng.choice("ACGT"); row=[b if rng.random()>pg else '-' for _ in range(n)]
        elif kind<0.3: b=rng.choice(codes); row=[b if rng.random()>pg else '-' for _ in range(n)]
        else: row=['-' if rng.random()<pg else (rng.choice(codes) if rng.random()<pa else rng.choice("ACGT")) for _ in range(n)]
        if all(x=='-' for x in row): row[rng.randrange(n)]=rng.choice(codes)
        tab[arms]=row
    files=[]
    for i in range(n):
        recs=[]
        for arms,row in tab.items():
            if row[i]!='-':
                for x in CODESET[row[i]]: recs.append(arms[:h]+x+arms[h:])
        if not recs: recs=None
        files.append(recs)
    if any(r is None for r in files): stats['emptysample']+=1; continue
    fl=[]
    for i,r in enumerate(files): write_fasta('s%d.fa'%i,r); fl.append('s%d.fa'%i)
    r=run([SKA,'build','-k',str(k),'--single-strand','-o','x']+fl); assert r.returncode==0, r.stderr
    hdr,rows=parse_nk(run([SKA,'nk','--full-info','x.skf']).stdout)
    assert rows==tab, "table construction failed"
    for rep in range(3):
        fs=[0.0,1.0]+[(j-0.5)/n for j in range(1,n+1)]
        f=rng.choice(fs); thr=0 if f==0.0 else n if f==1.0 else math.ceil(n*f)
        ftype=rng.choice(['no-filter','no-const','no-ambig','no-ambig-or-const'])
        ambmiss=rng.random()<0.5; mask=rng.random()<0.4; nogap=rng.random()<0.4
        args=['--min-freq',repr(f),'--filter',ftype]+(['--filter-ambig-as-missing'] if ambmiss else [])+(['--ambig-mask'] if mask else [])+(['--no-gap-only-sites'] if nogap else [])
        got=align_cols('x.skf',args)
        expt=model_filter(tab,n,thr,ftype,ambmiss,mask,nogap); exp=cols(expt)
        stats['evals']+=1
        if 0<len(expt)<len(tab): stats['nontrivial']+=1
        if got is None:
            stats['alignfail']+=1
            if exp: bad+=1; print("ALIGN FAIL with expected columns",args)
            continue
        if got!=exp:
            bad+=1; print("MISMATCH n=%d args=%s\n got-exp=%s\n exp-got=%s"%(n,args,dict(got-exp),dict(exp-got)))
            if bad>5: break
    if bad>5: break
print("done",N,"bad",bad,dict(stats))
