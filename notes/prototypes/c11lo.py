import sys; sys.path.insert(0,'/tmp/exp/py')
from model import *
SKA=sys.argv[1]; N=int(sys.argv[2]); seed=int(sys.argv[3])
rng=random.Random(seed)
os.makedirs('/tmp/exp/c11lo',exist_ok=True); os.chdir('/tmp/exp/c11lo')
stats=collections.Counter(); bad=0
for it in range(N):
    k=rng.choice([15,17,21,31]); ns=rng.randint(3,10)
    L=rng.randint(6*k,20*k); anc=rand_seq(rng,L)
    if rng.random()<0.3:
        i=rng.randrange(L-2*k); anc=anc+anc[i:i+rng.randint(k,2*k)]+rand_seq(rng,2*k)
    rate=rng.choice([0.003,0.01,0.03]); variants=[]
    for p in range(len(anc)):
        if rng.random()<rate:
            t=rng.random(); variants.append((p,'snp' if t<0.7 else 'del' if t<0.85 else 'ins', rng.choice("ACGT"), rng.randint(1,6), [rng.random()<0.5 for _ in range(ns)]))
    samples=[]
    for i in range(ns):
        s=list(anc)
        for (p,t,b,ln,car) in reversed(variants):
            if car[i]:
                if t=='snp': s[p]=b
                elif t=='del': del s[p:p+ln]
                else: s[p:p]=list(rand_seq(random.Random(p),ln))
        samples.append("".join(s))
    files=[]
    for i,s in enumerate(samples):
        write_fasta('s%d.fa'%i,[s if rng.random()<0.5 else rc(s)]); files.append('s%d.fa'%i)
    write_fasta('ref.fa',[anc],names=['ref'])
    r=run([SKA,'build','-k',str(k),'-o','x']+files); 
    if r.returncode!=0: continue
    outs=[]
    for rep,th in enumerate([1,1,2,4,8,3]):
        for f in ['o_snps.fas','o_snps.vcf','o_pseudo_genomes.fas','o_indels.vcf']:
            if os.path.exists(f): os.remove(f)
        r=run([SKA,'lo','x.skf','o','-r','ref.fa','-m','0.3','--threads',str(th)])
        if r.returncode!=0: outs.append(('fail',r.returncode)); continue
        outs.append(tuple(open(f).read() for f in ['o_snps.fas','o_snps.vcf','o_pseudo_genomes.fas'])+(tuple(sorted(open('o_indels.vcf').read().split("\n"))),))
    stats['cases']+=1
    if len(set(outs))>1:
        bad+=1; 
        which=[i for i in range(len(outs)) if outs[i]!=outs[0]]
        kinds=set()
        for i in which:
            if outs[i][0]=='fail' or outs[0][0]=='fail': kinds.add('fail')
            else:
                for j,nm in enumerate(['snps.fas','snps.vcf','pseudo','indels']):
                    if outs[i][j]!=outs[0][j]: kinds.add(nm)
        print("NONDETERMINISTIC k=%d ns=%d L=%d nvar=%d differing runs=%s kinds=%s"%(k,ns,L,len(variants),which,kinds))
        stats['nondet']+=1
print("done",N,"bad",bad,dict(stats))
