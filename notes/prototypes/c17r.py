import sys; sys.path.insert(0,'/tmp/exp/py')
from model import *
exec(open('/tmp/exp/py/c17.py').read().split("bad=0; stats")[0].split("rng=random.Random(seed)")[1].replace("os.makedirs('/tmp/exp/c17',exist_ok=True); os.chdir('/tmp/exp/c17')",""))
SKA=sys.argv[1]; N=int(sys.argv[2]); seed=int(sys.argv[3])
rng=random.Random(seed)
os.makedirs('/tmp/exp/c17r',exist_ok=True); os.chdir('/tmp/exp/c17r')
bad=0; stats=collections.Counter()
for it in range(N):
    k=rng.choice([15,17,21,25,31,33]); ns=rng.randint(3,10)
    nsnp=rng.randint(1,5); gap=2*k
    L=2*k*2+(nsnp-1)*gap+rng.randint(0,3*k)+nsnp*rng.randint(0,k)
    anc=gen_unique(rng,L,k-1)
    if anc is None: continue
    sites=[]; p=k+rng.randint(0,k)
    while len(sites)<nsnp and p<L-k-1:
        sites.append(p); p+=gap+rng.randint(0,k)
    samples=[list(anc) for _ in range(ns)]; cols={}
    for s in sites:
        nall=rng.choice([2,2,2,3,4]); alle=[anc[s]]+rng.sample([c for c in "ACGT" if c!=anc[s]],nall-1)
        while True:
            col=[rng.choice(alle) for _ in range(ns)]
            if len(set(col))>=2: break
        for i in range(ns): samples[i][s]=col[i]
        cols[s]="".join(col)
    samples=["".join(s) for s in samples]
    pos={}; okp=True
    for s in set(samples)|{anc}:
        for i in range(len(s)-(k-1)+1):
            w=s[i:i+k-1]
            for ww,o in ((w,0),(rc(w),1)):
                if ww in pos and pos[ww]!=(i,o): okp=False
                pos[ww]=(i,o)
    if not okp: stats['precond']+=1; continue
    files=[]
    for i,s in enumerate(samples):
        write_fasta('s%d.fa'%i,[s if rng.random()<0.5 else rc(s)]); files.append('s%d.fa'%i)
    refseq=anc if rng.random()<0.7 else samples[0]
    refrc = rng.random()<0.3
    write_fasta('ref.fa',[rc(refseq) if refrc else refseq],names=['refname'],width=rng.choice([None,60]))
    R = rc(refseq) if refrc else refseq
    r=run([SKA,'build','-k',str(k),'-o','x']+files); assert r.returncode==0
    for f in ['out_snps.fas','out_snps.vcf','out_pseudo_genomes.fas']:
        if os.path.exists(f): os.remove(f)
    m=rng.choice([None,'0.4'])
    r=run([SKA,'lo','x.skf','out','-r','ref.fa']+(['-m',m] if m else []))
    stats['cases']+=1
    if r.returncode!=0: print("LO FAIL",r.stderr[-300:]); bad+=1; continue
    # truth in ref coordinates
    def tr(site): return (L-1-site) if refrc else site
    truth={tr(s):("".join(COMP[c] for c in cols[s]) if refrc else cols[s]) for s in sites}
    vcf=[l.split("\t") for l in open('out_snps.vcf').read().strip().split("\n") if not l.startswith("#")]
    pg=open('out_pseudo_genomes.fas').read().strip().split("\n"); pgs=pg[1::2]
    snp=open('out_snps.fas').read().strip().split("\n"); snps=snp[1::2]
    ok=True; msg=""
    called=[]
    for f in vcf:
        p0=int(f[1])-1; called.append(p0)
        if f[0]!='refname' or p0 not in truth: ok=False; msg="pos %d not true"%p0; break
        if f[3]!=R[p0]: ok=False; msg="REF"; break
        alle=[f[3]]+(f[4].split(",") if f[4] else [])
        for gt,t in zip(f[9:],truth[p0]):
            if gt=='.': continue   # missing allowed?
            if alle[int(gt)]!=t: ok=False; msg="GT"
    if len(called)!=len(set(called)): ok=False; msg="dup"
    if ok:
        if len(pgs)!=ns or any(len(x)!=L for x in pgs): ok=False; msg="pg len"
        else:
            for i in range(ns):
                for p0 in range(L):
                    if p0 in called:
                        ch=pgs[i][p0]
                        if ch not in '-N' and ch!=truth[p0][i]: ok=False; msg="pg called"
                    elif pgs[i][p0]!=R[p0]: ok=False; msg="pg noncalled"
    if ok:
        # snps.fas columns == called columns in position order
        if len(set(len(x) for x in snps))!=1 or len(snps[0])!=len(called): ok=False; msg="snps len %s %d"%([len(x) for x in snps],len(called))
    stats['called']+=len(called); stats['planted']+=len(sites)
    if not ok:
        bad+=1; print("MISMATCH",msg,"k=%d ns=%d L=%d sites=%s refrc=%s refIsAnc=%s"%(k,ns,L,sites,refrc,refseq==anc)); print(open('out_snps.vcf').read()[-400:])
        if bad>6: break
print("done",N,"bad",bad,dict(stats))
