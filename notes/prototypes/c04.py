import sys; sys.path.insert(0,'/tmp/exp/py')
from model import *
SKA=sys.argv[1]; N=int(sys.argv[2]); seed=int(sys.argv[3])
rng=random.Random(seed)
os.makedirs('/tmp/exp/c04',exist_ok=True); os.chdir('/tmp/exp/c04')
def rc_code(c): return IUPAC[frozenset(COMP[x] for x in CODESET[c])]
def mutate(rng,s,k):
    s=list(s); i=0; out=[]
    while i<len(s):
        r=rng.random()
        if r<0.02: out.append(rng.choice("ACGT"))  # snp
        elif r<0.025: pass # del
        elif r<0.03: out.append(s[i]); out.append(rng.choice("ACGT"))
        else: out.append(s[i])
        i+=1
    return "".join(out)
def expected_map(ref,samples_dicts,k,use_rc,ambig_mask,repeat_mask):
    h=(k-1)//2
    # ref kmers
    refk=[]  # (contig, centre, arms, isrc)
    cnt=collections.Counter()
    for ci,c in enumerate(ref):
        for i,w in windows(c,k):
            arms,m,isrc,pal=canon(w,use_rc)
            refk.append((ci,i+h,arms,isrc)); cnt[arms]+=1
    outs=[]
    for d in samples_dicts:
        out=[['-']*len(c) for c in ref]
        mid=[[None]*len(c) for c in ref]
        for ci,p,arms,isrc in refk:
            if arms in d:
                b=d[arms]
                if isrc: b=rc_code(b)
                if ambig_mask and b not in "ACGT": b='N'
                mid[ci][p]=b
                for q in range(p-h,p+h+1): out[ci][q]=ref[ci][q].upper()
        for ci in range(len(ref)):
            for p in range(len(ref[ci])):
                if mid[ci][p]: out[ci][p]=mid[ci][p]
        if repeat_mask:
            for ci,p,arms,isrc in refk:
                if cnt[arms]>1:
                    for q in range(p-h,p+h+1):
                        if out[ci][q]!='-': out[ci][q]='N'
        outs.append("".join("".join(o) for o in out))
    return outs
bad=0; fails=0
stats=collections.Counter()
for it in range(N):
    k=rng.choice([5,7,9,11,15,21,31,33,35,41,63]) if rng.random()<0.7 else rng.choice(range(5,64,2))
    use_rc=rng.random()<0.6
    ncont=rng.randint(1,4); ref=[]
    for c in range(ncont):
        r=rng.random()
        L = rng.randint(1,k-1) if r<0.2 else rng.randint(k,4*k+20)
        s=rand_seq(rng,L)
        if rng.random()<0.3 and L>3:
            p=rng.randrange(L); n=rng.randint(1,3); s=s[:p]+'N'*n+s[p+n:]; s=s[:L]
        if rng.random()<0.4 and ref and len(ref[-1])>=k:  # repeat from earlier contig or self
            src=rng.choice(ref); 
            if len(src)>=k:
                i=rng.randrange(len(src)-k+1); ln=rng.randint(k,min(len(src)-i,2*k)); seg=src[i:i+ln]
                if rng.random()<0.5 and 'N' not in seg.upper() : seg=rc(seg.upper())
                p=rng.randrange(len(s)+1); s=s[:p]+seg+s[p:]
        if rng.random()<0.3: s="".join(ch.lower() if rng.random()<0.4 else ch for ch in s)
        ref.append(s)
    if not any(True for c in ref for _ in windows(c,k)): continue
    ns=rng.randint(1,4); samples=[]
    for si in range(ns):
        recs=[]
        for c in ref:
            if rng.random()<0.15: continue
            t=mutate(rng,c.upper().replace('N',rng.choice("ACGT")) if rng.random()<0.5 else c.upper(),k)
            if rng.random()<0.4 and 'N' not in t: t=rc(t)
            recs.append(t)
            if rng.random()<0.2 and len(t)>k:  # duplicate w/ variant -> ambiguity
                i=rng.randrange(len(t)-k+1); w=t[i:i+k]
                if 'N' not in w:
                    hh=(k-1)//2; recs.append(w[:hh]+rng.choice("ACGT")+w[hh+1:])
        rng.shuffle(recs)
        if not recs: recs=[rand_seq(rng,k+3)]
        samples.append(recs)
    dicts=[build_sample(r,k,use_rc) for r in samples]
    if any(len(d)==0 for d in dicts): continue
    write_fasta('ref.fa',ref,names=['c%d'%i for i in range(len(ref))],width=rng.choice([None,None,13]))
    files=[]
    for si,recs in enumerate(samples):
        write_fasta('s%d.fa'%si,recs); files.append('s%d.fa'%si)
    r=run([SKA,'build','-k',str(k),'-o','s']+files+([] if use_rc else ['--single-strand']))
    if r.returncode!=0: print("build fail",r.stderr[-200:]); fails+=1; continue
    am=rng.random()<0.4; rm=rng.random()<0.4
    flags=(['--ambig-mask'] if am else [])+(['--repeat-mask'] if rm else [])
    exp=expected_map(ref,dicts,k,use_rc,am,rm)
    anymapped=any(set(e)!={'-'} for e in exp)
    # is anything mapped at all (across samples)? program panics if no k-mer mapped
    r=run([SKA,'map','ref.fa','s.skf']+flags)
    mapped_any = any(a in d for d in dicts for c in ref for _,w in windows(c,k) for a in [canon(w,use_rc)[0]])
    if r.returncode!=0:
        if mapped_any: print("MAP FAIL though mapped",k,ref,samples,r.stderr[-300:]); bad+=1
        else: stats['nomap']+=1
        continue
    lines=r.stdout.strip().split("\n"); got=[lines[i] for i in range(1,len(lines),2)]; names=[lines[i][1:] for i in range(0,len(lines),2)]
    ok = got==exp and names==['s%d'%i for i in range(ns)]
    stats['cases']+=1
    if rm and any('N' in e for e in exp): stats['repeatmasked']+=1
    if any(len(c)<k for c in ref): stats['shortcontig']+=1
    if not ok:
        bad+=1
        print("MISMATCH k=%d rc=%s flags=%s\n ref=%s\n samples=%s"%(k,use_rc,flags,ref,samples))
        for g,e in zip(got,exp):
            if g!=e: print(" got",g,"\n exp",e)
        if bad>4: break
        continue
    # VCF
    r=run([SKA,'map','ref.fa','s.skf','-f','vcf']+flags)
    if r.returncode!=0: print("VCF FAIL",r.stderr[-300:]); bad+=1; continue
    recs={}; hdrnames=None; contigs=[]
    for l in r.stdout.split("\n"):
        if l.startswith("##contig"): contigs.append(l.split("ID=")[1].rstrip(">"))
        elif l.startswith("#CHROM"): hdrnames=l.split("\t")[9:]
        elif l and not l.startswith("#"):
            f=l.split("\t"); 
            assert (f[0],int(f[1])) not in recs
            recs[(f[0],int(f[1]))]=(f[3],f[4].split(",") if f[4]!='.' else [],f[9:],f[8])
    # expected
    expv={}
    off=0
    for ci,c in enumerate(ref):
        for p in range(len(c)):
            rb=c[p].upper()
            col=[e[off+p] for e in exp]
            if any(x!=rb for x in col):
                expv[('c%d'%ci,p+1)]=(rb if rb in "ACGT" else 'N',col)
        off+=len(c)
    okv = set(recs)==set(expv) and hdrnames==['s%d'%i for i in range(ns)] and contigs==['c%d'%i for i in range(len(ref))]
    if okv:
        for key_,(refb,alts,gts,fmt) in recs.items():
            erb,col=expv[key_]
            if refb!=erb or fmt!='GT': okv=False; break
            alleles=[refb]+alts
            if len(set(alts))!=len(alts) : okv=False;break
            for gt,x in zip(gts,col):
                if x=='-': dec='.'
                else:
                    dec = alleles[int(gt)] if gt!='.' else '.'
                    x = x if x in "ACGT" else 'N'
                if (x=='-' and gt!='.') or (x!='-' and dec!=x): okv=False
            if not okv: break
    # order of records
    if not okv:
        bad+=1
        print("VCF MISMATCH k=%d rc=%s flags=%s\n ref=%s\n samples=%s"%(k,use_rc,flags,ref,samples))
        print(" recs-exp",sorted(set(recs)-set(expv))[:5]," exp-recs",sorted(set(expv)-set(recs))[:5])
        print(r.stdout[-600:])
        if bad>4: break
print("done",N,"bad",bad,"buildfails",fails,dict(stats))
