import sys; sys.path.insert(0,'/tmp/exp/py')
from model import *
SKA=sys.argv[1]; N=int(sys.argv[2]); seed=int(sys.argv[3])
rng=random.Random(seed)
os.makedirs('/tmp/exp/c03',exist_ok=True); os.chdir('/tmp/exp/c03')
bad=0; stats=collections.Counter()
for it in range(N):
    k=rng.choice([5,7,9,11,15,17,17,21,31,33,41,63]); h=(k-1)//2; ns=rng.randint(2,10)
    nc=rng.randint(1,3); contigs=[rand_seq(rng,rng.randint(k,5*k)) for _ in range(nc)]
    # sites: spaced > h apart, >= h from ends
    sites=[]
    for ci,c in enumerate(contigs):
        p=h+rng.randint(0,h)
        while p<=len(c)-1-h:
            if rng.random()<0.7: sites.append((ci,p))
            p+=h+1+rng.randint(0,h)
    samples=[[list(c) for c in contigs] for _ in range(ns)]
    cols=[]
    for (ci,p) in sites:
        a0=contigs[ci][p]; alle=[a0]+rng.sample([x for x in "ACGT" if x!=a0],rng.choice([1,1,2,3]))
        while True:
            col=[rng.choice(alle) for _ in range(ns)]
            if len(set(col))>1: break
        for i in range(ns): samples[i][ci][p]=col[i]
        cols.append("".join(col))
    samples=[["".join(c) for c in s] for s in samples]
    # precondition: union split kmers unique on both strands (each canonical arms -> unique (contig,pos))
    seen={}; okp=True
    for s in samples:
        for ci,c in enumerate(s):
            for i,w in windows(c,k):
                arms,m,isrc,pal=canon(w,True)
                if pal or (arms in seen and seen[arms]!=(ci,i)): okp=False
                seen[arms]=(ci,i)
    if not okp or not sites: stats['precond']+=1; continue
    files=[]
    for i,s in enumerate(samples):
        recs=[c if rng.random()<0.5 else rc(c) for c in s]; rng.shuffle(recs)
        write_fasta('s%d.fa'%i,recs); files.append('s%d.fa'%i)
    if k==17 and rng.random()<0.5:
        r=run([SKA,'align','--min-freq','1']+files); stats['onestep']+=1
    else:
        r=run([SKA,'build','-k',str(k),'-o','x']+files); assert r.returncode==0
        r=run([SKA,'align','--min-freq','1','x.skf'])
    assert r.returncode==0, r.stderr
    lines=r.stdout.strip().split("\n"); names=[l[1:] for l in lines[0::2]]; seqs=lines[1::2]
    got=collections.Counter()
    def norm(c):
        cc="".join(COMP[x] for x in c); return min(c,cc)
    okc=len(set(len(s) for s in seqs))==1 and names==['s%d'%i for i in range(ns)]
    if okc:
        for j in range(len(seqs[0])): got[norm("".join(s[j] for s in seqs))]+=1
    exp=collections.Counter(norm(c) for c in cols)
    stats['cases']+=1; stats['sites']+=len(sites)
    if not okc or got!=exp:
        bad+=1; print("MISMATCH k=%d ns=%d sites=%s\n got-exp=%s exp-got=%s"%(k,ns,sites,dict(got-exp),dict(exp-got)))
        if bad>5: break
print("done",N,"bad",bad,dict(stats))
