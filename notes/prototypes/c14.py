import sys; sys.path.insert(0,'/tmp/exp/py')
from model import *
import math
SKA=sys.argv[1]; N=int(sys.argv[2]); seed=int(sys.argv[3])
rng=random.Random(seed)
os.makedirs('/tmp/exp/c14',exist_ok=True); os.chdir('/tmp/exp/c14')
bad=0; stats=collections.Counter()
def fmt(x,d): return ("%."+str(d)+"f")%x
for it in range(N):
    k=rng.choice([7,9,11,15,31,33]); use_rc=rng.random()<0.6; ns=rng.randint(2,12)
    base=rand_seq(rng,rng.randint(3*k,8*k)); samples=[]
    for i in range(ns):
        t=list(base)
        for p in range(len(t)):
            if rng.random()<0.02: t[p]=rng.choice("ACGT")
        t="".join(t); recs=[]
        if rng.random()<0.4: t=t[rng.randrange(0,len(t)//3):rng.randrange(2*len(t)//3,len(t))]
        recs.append(t)
        if rng.random()<0.3: recs.append(rand_seq(rng,rng.randint(k+1,3*k)))
        if rng.random()<0.15 and samples: recs=list(samples[-1])
        samples.append(recs)
    ds=[build_sample(r,k,use_rc) for r in samples]
    if any(len(d)==0 for d in ds): continue
    if any(b not in "ACGT" for d in ds for b in d.values()): stats['ambig']+=1; continue
    files=[]
    for i,r_ in enumerate(samples): write_fasta('s%d.fa'%i,r_); files.append('s%d.fa'%i)
    r=run([SKA,'build','-k',str(k),'-o','x']+files+([] if use_rc else ['--single-strand'])); assert r.returncode==0
    fs=[0.0,1.0]+[(j-0.5)/ns for j in range(1,ns+1)]
    f=rng.choice(fs); thr=0 if f==0 else ns if f==1.0 else math.ceil(ns*f)
    allow=rng.random()<0.5; th=rng.choice([1,2,4])
    r=run([SKA,'distance','x.skf','--min-freq',repr(f),'--threads',str(th)]+(['--allow-ambiguous'] if allow else []))
    assert r.returncode==0, r.stderr
    arms=set().union(*[set(d) for d in ds])
    keep=[a for a in arms if sum(1 for d in ds if a in d)>=thr]
    exp=["Sample1\tSample2\tDistance\tMismatches"]
    for i in range(ns):
        for j in range(i+1,ns):
            snp=sum(1 for a in keep if a in ds[i] and a in ds[j] and ds[i][a]!=ds[j][a])
            one=sum(1 for a in keep if (a in ds[i])!=(a in ds[j])); any_=sum(1 for a in keep if (a in ds[i]) or (a in ds[j]))
            mm=0.0 if any_==0 else one/any_
            exp.append("s%d\ts%d\t%s\t%s"%(i,j,fmt(snp,2),fmt(mm,5)))
    got=r.stdout.strip().split("\n")
    stats['cases']+=1
    if got!=exp:
        bad+=1; print("MISMATCH k=%d ns=%d f=%r thr=%d allow=%s"%(k,ns,f,thr,allow)); 
        for g,e in zip(got,exp):
            if g!=e: print("  got",g,"| exp",e)
        if bad>3: break
print("done",N,"bad",bad,dict(stats))
