import sys; sys.path.insert(0,'/tmp/exp/py')
from model import *
SKA=sys.argv[1]; N=int(sys.argv[2]); seed=int(sys.argv[3]); MARGIN=int(sys.argv[4]) if len(sys.argv)>4 else 2
rng=random.Random(seed)
os.makedirs('/tmp/exp/c17',exist_ok=True); os.chdir('/tmp/exp/c17')
def gen_unique(rng,L,q,forbid=None):
    """sequence of length L whose q-mers are unique on both strands (greedy w/ backtracking-lite)"""
    for attempt in range(200):
        s=rand_seq(rng,q); seen=set([s,rc(s)])
        if s==rc(s): continue
        ok=True
        while len(s)<L:
            cands=list("ACGT"); rng.shuffle(cands); placed=False
            for c in cands:
                w=s[-(q-1):]+c
                if w in seen or rc(w) in seen or w==rc(w): continue
                s+=c; seen.add(w); seen.add(rc(w)); placed=True; break
            if not placed: ok=False; break
        if ok: return s
    return None
def qmers_unique(seqs,q):
    """all q-mers across the set of sequences: each distinct q-mer (canonical) occurs at a consistent... we need: in union graph no repeats: each sample individually has unique q-mers on both strands"""
    for s in seqs:
        seen=set()
        for i in range(len(s)-q+1):
            w=s[i:i+q]
            if w in seen or w==rc(w): return False
            if rc(w) in seen: return False
            seen.add(w)
    return True
bad=0; stats=collections.Counter()
for it in range(N):
    k=rng.choice([7,9,11,13,15,17,21,25,31,33]); ns=rng.randint(3,10)
    nsnp=rng.randint(1,4)
    gap=2*k
    L=MARGIN*k*2+ (nsnp-1)*gap + rng.randint(0,3*k) + nsnp*rng.randint(0,k)
    anc=gen_unique(rng,L,k-1)
    if anc is None: stats['nogen']+=1; continue
    # sites
    sites=[]; p=MARGIN*k+rng.randint(0,k//2)
    while len(sites)<nsnp and p< L-MARGIN*k:
        sites.append(p); p+=gap+rng.randint(0,k)
    if not sites: continue
    # alleles
    cols=[]
    samples=[list(anc) for _ in range(ns)]
    for s in sites:
        nall=rng.choice([2,2,2,3,4]); alle=[anc[s]]+rng.sample([c for c in "ACGT" if c!=anc[s]],nall-1)
        while True:
            col=[rng.choice(alle) for _ in range(ns)]
            if len(set(col))>=2: break
        for i in range(ns): samples[i][s]=col[i]
        cols.append("".join(col))
    samples=["".join(s) for s in samples]
    # precondition across union: every sample's (k-1)-mers unique, and also the union of all samples has no cross-collision: check each variant combos -> simply check all samples
    allv=set(samples)
    # union check: (k-1)-mers of union must only collide at same position
    pos={}
    okp=True
    for s in allv:
        for i in range(len(s)-(k-1)+1):
            w=s[i:i+k-1]
            for ww,orient in ((w,0),(rc(w),1)):
                if ww in pos and pos[ww]!=(i,orient): okp=False
                pos[ww]=(i,orient)
    if not okp: stats['precond']+=1; continue
    files=[]
    for i,s in enumerate(samples):
        t=s if rng.random()<0.5 else rc(s)
        write_fasta('s%d.fa'%i,[t]); files.append('s%d.fa'%i)
    r=run([SKA,'build','-k',str(k),'-o','x']+files)
    assert r.returncode==0, r.stderr
    for f in ['out_snps.fas','out_indels.vcf']:
        if os.path.exists(f): os.remove(f)
    thr=rng.choice([1,1,2,4])
    r=run([SKA,'lo','x.skf','out','--threads',str(thr)])
    stats['cases']+=1
    if r.returncode!=0 or not os.path.exists('out_snps.fas'):
        print("LO FAIL k=%d ns=%d sites=%s L=%d rc=%d"%(k,ns,sites,L,r.returncode), r.stderr[-300:]); bad+=1; continue
    lines=open('out_snps.fas').read().strip().split("\n")
    names=[l[1:] for l in lines[0::2]]; seqs=lines[1::2] if len(lines)>1 else []
    if len(seqs)!=ns: seqs=(seqs+['']*ns)[:ns]
    gotcols=collections.Counter("".join(s[j] for s in seqs) for j in range(len(seqs[0]))) if seqs and seqs[0] else collections.Counter()
    def norm(c): 
        cc="".join(COMP.get(x,x) for x in c); return min(c,cc)
    g=collections.Counter(); 
    for c,n in gotcols.items(): g[norm(c)]+=n
    e=collections.Counter(norm(c) for c in cols)
    if g!=e or names!=['s%d'%i for i in range(ns)] or len(set(len(s) for s in seqs))!=1:
        bad+=1
        print("MISMATCH k=%d ns=%d L=%d sites=%s thr=%d\n exp=%s\n got=%s"%(k,ns,L,sites,thr,dict(e),dict(g)))
        if bad>8: break
print("done",N,"bad",bad,dict(stats))
