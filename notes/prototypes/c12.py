import sys; sys.path.insert(0,'/tmp/exp/py')
from model import *
SKA=sys.argv[1]; N=int(sys.argv[2]); seed=int(sys.argv[3])
rng=random.Random(seed)
os.makedirs('/tmp/exp/c12',exist_ok=True); os.chdir('/tmp/exp/c12')
def canon_full(w,use_rc):
    if not use_rc: return w
    r=rc(w); return min(w,r)
bad=0; stats=collections.Counter()
for it in range(N):
    k=rng.choice([5,7,9,15,21,31,33,41]); use_rc=rng.random()<0.6
    G=rng.randint(k+5,6*k); g=rand_seq(rng,G)
    if rng.random()<0.2:
        h=(k-1)//2; a=rand_seq(rng,h); g=g+a+rng.choice("ACGT")+rc(a)+rand_seq(rng,3)
    Q=rng.randint(0,40); mc=rng.randint(1,6); rule=rng.choice(['none','middle','strict'])
    nreads=rng.randint(2,40); reads=[]
    for i in range(nreads):
        L=rng.randint(k,min(len(g),k+30)); p=rng.randrange(len(g)-L+1); s=list(g[p:p+L])
        for j in range(L):
            r=rng.random()
            if r<0.01: s[j]=rng.choice("ACGT")
            elif r<0.015: s[j]='N'
        s="".join(s)
        q=[rng.choice([Q-1,Q,Q,Q+1,Q+5,40] if Q>0 else [0,1,5]) for _ in range(L)]
        q=[max(0,min(41,x)) for x in q]
        if rng.random()<0.5: s=rc(s.replace('N','n').upper().replace('N','N')) if 'N' not in s else s
        reads.append((s,q))
    half=rng.randint(1,len(reads)-1)
    for fn,rs in (('r1.fq',reads[:half]),('r2.fq',reads[half:])):
        with open(fn,'w') as f:
            for i,(s,q) in enumerate(rs): f.write("@r%d\n%s\n+\n%s\n"%(i,s,"".join(chr(33+x) for x in q)))
    cnt=collections.Counter(); occ={}
    for s,q in reads:
        for i in range(len(s)-k+1):
            w=s[i:i+k]
            if 'N' in w: continue
            if rule=='strict' and any(x<Q for x in q[i:i+k]): continue
            if rule=='middle' and q[i+(k-1)//2]<Q: continue
            cnt[canon_full(w,use_rc)]+=1
    must=collections.defaultdict(set); may=collections.defaultdict(set)
    for w,c in cnt.items():
        arms,m,_,pal=canon(w,use_rc)
        tgt=[m]+([COMP[m]] if pal else [])
        for x in tgt:
            may[arms].add(x)
            if c>=mc: must[arms].add(x)
    open('list.txt','w').write("samp\tr1.fq\tr2.fq\n")
    if os.path.exists('o.skf'): os.remove('o.skf')
    r=run([SKA,'build','-f','list.txt','-k',str(k),'-o','o','--min-count',str(mc),'--min-qual',str(Q),'--qual-filter',{'none':'no-filter'}.get(rule,rule)]+([] if use_rc else ['--single-strand']))
    stats['cases']+=1
    if r.returncode!=0:
        if must: print("BUILD FAIL but expected",len(must),r.stderr[-200:]); bad+=1
        else: stats['empty']+=1
        continue
    hdr,rows=parse_nk(run([SKA,'nk','--full-info','o.skf']).stdout)
    ok=True
    for a,b in rows.items():
        got=set(CODESET[b[0]])
        if not (must.get(a,set())<=got<=may.get(a,set())): ok=False; print(" row",a,b,must.get(a),may.get(a))
        if got!=must.get(a,set()): stats['extras']+=1
    for a in must:
        if a not in rows: ok=False; print(" lost",a,must[a])
    if any(c==mc for c in cnt.values()): stats['atthreshold']+=1
    if not ok:
        bad+=1; print("MISMATCH k=%d rc=%s Q=%d mc=%d rule=%s"%(k,use_rc,Q,mc,rule))
        if bad>5: break
print("done",N,"bad",bad,dict(stats))
