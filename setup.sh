#!/bin/bash
# Offline build of the harness and of the ska CLI from /repo's current working tree.
set -u
cd "$(dirname "$0")"
export CARGO_NET_OFFLINE=true
ROOT="$(pwd)"
mkdir -p "$ROOT/target" "$ROOT/evidence"
# harness (depends on the ska library by path => rebuilt when /repo/src changes)
cp -n /repo/Cargo.lock "$ROOT/harness/Cargo.lock" 2>/dev/null || true
( cd "$ROOT/harness" && cargo build --release --offline --target-dir "$ROOT/target/harness" ) >"$ROOT/target/build-harness.log" 2>&1 || { tail -30 "$ROOT/target/build-harness.log"; echo "BUILD-FAILED harness"; exit 2; }
# the CLI exactly as users build it (release profile of /repo), hooks on
( cd /repo && cargo build --release --offline --features verif-hooks --target-dir "$ROOT/target/cli" ) >"$ROOT/target/build-cli.log" 2>&1 || { tail -30 "$ROOT/target/build-cli.log"; echo "BUILD-FAILED ska"; exit 2; }
echo "setup ok"
