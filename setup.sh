#!/bin/bash
# Offline build of the harness and of the ska CLI from /repo's current working tree.
# setup.sh          : library + every property binary (a binary that does not compile against the
#                     tree's API is reported and skipped; the others are still built)
# setup.sh <cNN>    : library + that property's binary only
set -u
cd "$(dirname "$0")"
export CARGO_NET_OFFLINE=true
ROOT="$(pwd)"
mkdir -p "$ROOT/target" "$ROOT/evidence"
# harness (depends on the ska library by path => rebuilt when /repo/src changes)
cp -n /repo/Cargo.lock "$ROOT/harness/Cargo.lock" 2>/dev/null || true
LOG="$ROOT/target/build-harness.log"
# the CLI exactly as users build it (release profile of /repo), hooks on
( cd /repo && cargo build --release --offline --features verif-hooks --target-dir "$ROOT/target/cli" ) >"$ROOT/target/build-cli.log" 2>&1 || { tail -30 "$ROOT/target/build-cli.log"; echo "BUILD-FAILED ska"; exit 2; }
if [ $# -ge 1 ]; then
  ( cd "$ROOT/harness" && cargo build --release --offline --target-dir "$ROOT/target/harness" --bin "$1" ) >"$LOG" 2>&1 || { grep -E "^error" -A 6 "$LOG" | head -30; echo "BUILD-FAILED harness binary $1 (does not compile against this tree)"; exit 2; }
  echo "setup ok"; exit 0
fi
if ( cd "$ROOT/harness" && cargo build --release --offline --target-dir "$ROOT/target/harness" ) >"$LOG" 2>&1; then
  echo "setup ok"; exit 0
fi
# something does not compile: the library is needed by all; binaries are tried one by one
( cd "$ROOT/harness" && cargo build --release --offline --target-dir "$ROOT/target/harness" --lib ) >"$LOG" 2>&1 || { tail -30 "$LOG"; echo "BUILD-FAILED harness library"; exit 2; }
for i in $(seq -w 1 20); do
  ( cd "$ROOT/harness" && cargo build --release --offline --target-dir "$ROOT/target/harness" --bin "c$i" ) >>"$LOG" 2>&1 || { echo "BUILD-FAILED harness binary c$i (does not compile against this tree; its check will report INCONCLUSIVE)"; rm -f "$ROOT/target/harness/release/c$i"; }
done
echo "setup ok (with skipped binaries)"
