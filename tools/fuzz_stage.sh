#!/bin/bash
# tools/fuzz_stage.sh <ID> <target> : bounded libFuzzer campaign for the thorough tier.
# A crash counts only if the saved input also fails in the release-mode replayer
# (cargo-fuzz builds have debug assertions on). Adds a "fuzz" block to evidence/<ID>.json.
# exit 0 no confirmed violation (or stage skipped), 1 confirmed violation (VIOLATION line printed)
set -u
ID=$1; T=$2
ROOT="$(cd "$(dirname "$0")/.." && pwd)"
export CARGO_NET_OFFLINE=true
SECS=${VERIF_FUZZ_SECS:-120}
JOBS=${VERIF_FUZZ_JOBS:-5}
SEED=${VERIF_SEED:-1}
WORK="$ROOT/target/scratch/fuzz-$T-$$"
mkdir -p "$WORK/corpus" "$WORK/artifacts" "$ROOT/replays"
note() { python3 - "$ROOT/evidence/$ID.json" "$@" <<'PY'
import json,sys
p=sys.argv[1]; kv=dict(a.split('=',1) for a in sys.argv[2:])
try:
    e=json.load(open(p)); e['coverage']['fuzz']=kv; json.dump(e,open(p,'w'),indent=1)
except Exception as ex: print("cannot update evidence:",ex)
PY
}
cp "$ROOT/fuzzing/seeds/$T/"* "$WORK/corpus/" 2>/dev/null
( cd "$ROOT/fuzzing" && cp -n /repo/Cargo.lock Cargo.lock 2>/dev/null; cp -n /repo/Cargo.lock fuzz/Cargo.lock 2>/dev/null
  cargo +nightly fuzz build --target-dir "$ROOT/target/fuzz" "$T" >"$ROOT/target/build-fuzz.log" 2>&1 &&
  cargo build --release --offline --target-dir "$ROOT/target/fuzzlib" >>"$ROOT/target/build-fuzz.log" 2>&1 ) || { echo "fuzz stage skipped: build failed (see target/build-fuzz.log)"; note target=$T status=skipped_build_failed; rm -rf "$WORK"; exit 0; }
BIN="$ROOT/target/fuzz/x86_64-unknown-linux-gnu/release/$T"
[ -x "$BIN" ] || { echo "fuzz stage skipped: $BIN missing"; note target=$T status=skipped_no_binary; rm -rf "$WORK"; exit 0; }
( cd "$WORK" && "$BIN" corpus -artifact_prefix="$WORK/artifacts/" -max_total_time=$SECS -len_control=0 -max_len=600 -seed=$SEED -jobs=$JOBS -workers=$JOBS -print_final_stats=1 >"$WORK/fuzz.log" 2>&1 )
RUNS=$(grep -h "stat::number_of_executed_units" "$WORK"/fuzz-*.log 2>/dev/null | awk '{s+=$2} END{print s+0}')
NCRASH=$(ls "$WORK/artifacts" 2>/dev/null | wc -l)
CONFIRMED=0
for f in "$WORK"/artifacts/*; do
  [ -e "$f" ] || continue
  if ! "$ROOT/target/fuzzlib/release/replay_fuzz" "$T" "$f" >"$WORK/replay.out" 2>&1; then
    CONFIRMED=$((CONFIRMED+1))
    dst="$ROOT/replays/$ID-fuzz-$T-$(basename "$f")"
    cp "$f" "$dst"; cat "$WORK/replay.out"
    [ $CONFIRMED -eq 1 ] && FIRST="$dst"
  fi
done
note target=$T status=ran seconds=$SECS jobs=$JOBS executions=$RUNS crash_inputs=$NCRASH confirmed_in_release_build=$CONFIRMED corpus_files=$(ls "$WORK/corpus" | wc -l)
echo "fuzz $T: executions=$RUNS crash_inputs=$NCRASH confirmed=$CONFIRMED"
rm -rf "$WORK"
if [ $CONFIRMED -gt 0 ]; then echo "VIOLATION property=$ID replay=$FIRST"; exit 1; fi
exit 0
