#!/usr/bin/env python3
"""Print the sensitivity tables of DESIGN.md §8 from notes/mutants-results.jsonl (latest entry per mutant)."""
import json
rows = {}
for l in open('/verif/notes/mutants-results.jsonl'):
    r = json.loads(l)
    if r['id'] in rows and r.get('checks') and rows[r['id']].get('checks'):
        old = rows[r['id']]; old['checks'].update(r['checks']); old['status'] = r.get('status', old.get('status'))
        if 'suite' in r: old['suite'] = r['suite']
    else:
        rows[r['id']] = r
def line(r):
    ch = r.get('checks', {})
    caught = [k for k, v in ch.items() if v['exit'] == 1]
    missed = [k for k, v in ch.items() if v['exit'] != 1]
    t = max([v['wall'] for v in ch.values()] + [0])
    return f"| `{r['id']}` | {r.get('suite', 'pass (confirmed separately)')} | {', '.join(caught) or '—'} | {', '.join(missed) or '—'} | {t:.0f} s |"
print("| mutant | repository suite | reported VIOLATION | held (not designated to catch / missed) | slowest check |")
print("|---|---|---|---|---|")
for k, r in rows.items():
    if not k.startswith('seeded-') and r.get('status') == 'ok': print(line(r))
print()
print("| seeded change | repository suite | reported VIOLATION | held | slowest check |")
print("|---|---|---|---|---|")
for k, r in sorted(rows.items()):
    if k.startswith('seeded-') and r.get('status') == 'ok': print(line(r))
