#!/usr/bin/env python3
"""Print the 'as built' table of DESIGN.md §5a from evidence/*.json (whatever tier they were written by)."""
import json, glob
print("| property | tier | stage: evaluations / distinct non-trivial (rejected) | wall |")
print("|---|---|---|---|")
for f in sorted(glob.glob('/verif/evidence/C*.json')):
    e = json.load(open(f)); c = e['coverage']
    st = "; ".join(f"{s['stage']}: {s['evaluations']} / {s['distinct_nontrivial']}" + (f" ({s['rejected_by_precondition']})" if s.get('rejected_by_precondition') else "") for s in c['stages'])
    fz = c.get('fuzz')
    if fz: st += f"; fuzz {fz.get('target')}: {fz.get('executions')} executions, {fz.get('confirmed_in_release_build')} confirmed"
    print(f"| {e['property_id']} | {e['tier']} | {st} | {e['wall_s']} s |")
