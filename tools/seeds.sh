#!/bin/bash
# tools/seeds.sh <tier> <seed>... : run every check with the given seeds, print one line per run
tier=$1; shift
cd "$(dirname "$0")/.."
for s in "$@"; do
  for p in C01 C02 C03 C04 C05 C06 C07 C08 C09 C10 C11 C12 C13 C14 C15 C16 C17 C18 C19 C20; do
    t0=$(date +%s)
    out=$(VERIF_SEED=$s ./run.sh $p $tier 2>&1 | grep -E "^(OK|VIOLATION|INCONCLUSIVE|KNOWN-FINDING|  stage=|fuzz |C[0-9]+ (quick|thorough))" | cut -c1-300 | tr '\n' ' ')
    echo "seed=$s $p $(( $(date +%s) - t0 ))s $out"
  done
done
