#!/usr/bin/env python3
"""Regenerate MANIFEST.json from the table below (keeps it valid at all times)."""
import json
CLAIMED = {
 "C01": dict(level="exploration", technique="property-based testing (proptest): generated record scripts vs string reference model, in-process (u64+u128) and through ska build / ska nk",
   text="Seeded generated-input search over record scripts, all 30 k, both strands and both integer widths; the observed dictionary must equal a string-based reference model exactly (both directions) and refusals must coincide. Exploration, not proof.",
   note="Trusts needletail's FASTA parser and the reference model's reading of the documentation (windows of k valid bases, A<C<T<G order, IUPAC union). Inputs restricted to ACGTN in either case.", ref="DESIGN.md §5 C01"),
}
NOT_YET = {}
props=[json.loads(l) for l in open('/verif/properties.jsonl')]
checks=[]; na=[]
for p in props:
    i=p['id']
    if i in CLAIMED:
        c=CLAIMED[i]
        checks.append({
          "property_id": i,
          "quick_cmd": f"./run.sh {i} quick",
          "thorough_cmd": f"./run.sh {i} thorough",
          "evidence_file": f"evidence/{i}.json",
          "replay_cmd_template": f"./run.sh {i} quick --replay {{path}}",
          "engine": "vcheck",
          "level_claimed": {"category": c['level'], "text": c['text'], "design_ref": c['ref']},
          "level_note": c['note'],
          "technique": c['technique'],
        })
    else:
        na.append({"property_id": i, "reason": NOT_YET.get(i, "check not built yet in this round (planned in DESIGN.md §5); not claimed until its check exists and is silent on the unchanged tree")})
m={
 "version": 1,
 "setup_cmd": "./setup.sh",
 "hooks": {
   "guard": "cargo feature verif-hooks",
   "enable": "cargo build --features verif-hooks (the harness depends on ska with features=[\"verif-hooks\"]; the CLI is built with --features verif-hooks)",
   "baseline_off_cmd": "cd /repo && cargo test --workspace --no-fail-fast --offline",
   "source_commits": ["9f894d6"],
   "add_only": True
 },
 "engines": [
   {"name": "vcheck", "path": "harness/", "serves_properties": sorted(CLAIMED), "kind_free_text": "Rust binary: seeded parallel proptest runners (16 workers), string reference model, CLI driver with watchdog, shrinking to replay files, evidence writer"},
 ],
 "checks": checks,
 "not_applicable": na,
 "notes": "All checks: ./run.sh <ID> <quick|thorough> rebuilds harness and CLI from /repo's working tree, exit 0/1/2 (2 = inconclusive/infrastructure). VERIF_SEED selects the PRNG seed (default 1). Known findings: known-findings.txt."
}
json.dump(m, open('/verif/MANIFEST.json','w'), indent=1)
print("claimed", len(checks), "not_applicable", len(na))
