#!/usr/bin/env python3
"""Regenerate MANIFEST.json from the table below (keeps it valid at all times)."""
import json
PBT = "property-based testing (proptest, seeded, 16 workers, shrinking to a replay file)"
def C(level, technique, text, note, ref): return dict(level=level, technique=technique, text=text, note=note, ref=ref)
EXPL = " Generated-input search: held on everything explored, not a proof."
CLAIMED = {
 "C01": C("exploration", PBT+": generated record scripts vs string reference model, in-process (u64+u128) and through ska build / ska nk",
   "Record scripts over all 30 k, both strands and both integer widths; the observed dictionary must equal a string-based reference model exactly (both directions) and refusals must coincide."+EXPL,
   "Trusts needletail's FASTA parser and the reference model's reading of the documentation. Inputs restricted to ACGTN in either case.", "DESIGN.md §5 C01"),
 "C02": C("exploration", PBT+": metamorphic relations (revcomp/permute/rewrap/case/gzip/sample order), no model",
   "Transformed inputs must give the identical table (columns permuted only by the sample permutation), in-process and through the CLI."+EXPL,
   "Needletail's gzip/line handling is exercised, not modelled.", "DESIGN.md §5 C02"),
 "C03": C("exploration", PBT+": constructed planted-SNP genome sets, column multiset oracle through ska build/align",
   "Ancestors with unique split k-mers by greedy construction, isolated substitutions, random orientation; output columns must equal the planted ones exactly (multiset up to complement)."+EXPL,
   "Preconditions met by construction and re-checked; rejected cases counted.", "DESIGN.md §5 C03"),
 "C04": C("exploration", PBT+": reference model of the mapped alignment vs ska map (CLI) and AlnWriter (in-process)",
   "Generated references (short contigs, N, repeats, lower case) and derived samples; every output string must equal the union-of-windows model; refusal iff nothing maps; self-map corollary."+EXPL,
   "ska map observed only through the CLI; contig names are words without white space (also region-style name:start-end).", "DESIGN.md §5 C04"),
 "C05": C("exploration", PBT+": differential oracle between ska map -f vcf and -f aln",
   "The VCF must contain a record exactly where the alignment differs from the reference, with genotypes decoding to the aligned characters."+EXPL,
   "The alignment itself is checked by C04.", "DESIGN.md §5 C05"),
 "C06": C("exploration", PBT+": arbitrary symbol tables vs filter model, plus sub-multiset metamorphic relation",
   "All 4x2x2x2 flag combinations and noise-free thresholds over arbitrary tables; emitted column multiset must equal the model's; a stricter setting yields a sub-multiset."+EXPL,
   "Tables injected through the public API; thresholds chosen so ceil(f*n) is immune to floating point noise.", "DESIGN.md §5 C06"),
 "C07": C("exploration", PBT+": model + differential (merge vs joint build) through the CLI, refusal cases",
   "Partitions, argument orders, nesting, 9-20 inputs in one call, inputs of one base name in two directories and .skf files written by older releases (the repository's own test files) generated; merged file must equal the model table and a joint build; incompatible inputs must be refused without output."+EXPL,
   "Names are labels (shared names allowed; columns are positional).", "DESIGN.md §5 C07"),
 "C08": C("exploration", PBT+": model + differential (delete vs build of the rest) through the CLI, refusal cases",
   "Subsets, both name routes, in place / -o; result must equal the model and a build of the remaining samples; refusals leave the file byte-identical."+EXPL,
   "Names file = one name per line.", "DESIGN.md §5 C08"),
 "C09": C("exploration", PBT+": round trip save/load by the CLI's width dispatch, in-memory vs reloaded differential, CLI commands vs model on 64-bit-fitting k>=35 files",
   "Every valid k; files whose k-mers fit 64 bits generated on purpose; width read == width written; every operation agrees between in-memory and reloaded data; CLI results equal the model."+EXPL,
   "In-process calls single-threaded; map only via CLI.", "DESIGN.md §5 C09"),
 "C10": C("exploration", PBT+": stateful/model-based histories of CLI operations against a table model, final differential against a fresh file",
   "Histories of merge/delete/weed/weed-filter; after every step nk equals the model; three generated downstream commands agree between the file with history and a fresh file with the same content."+EXPL,
   "weed thresholds only where n*f is an exact integer (floor/ceil discrepancy of ska weed noted, not asserted).", "DESIGN.md §5 C10"),
 "C12": C("exploration", PBT+": string model of k-mer counting over generated read pairs (in-process and CLI), sandwich oracle must/may with collision allowance",
   "Read sets with counts and qualities straddling the thresholds; everything reaching the count must be stored, nothing unobserved may be stored, extras bounded by the property's 0.1%."+EXPL,
   "Collision bound checked statistically over the run.", "DESIGN.md §5 C12"),
 "C13": C("exploration", PBT+": model + model-free partition/idempotence relations through ska weed",
   "Weed files from substrings/rc/N/unrelated/whole samples; result equals the model; the two directions partition the original; second weed is a no-op."+EXPL,
   "--min-freq 0 only.", "DESIGN.md §5 C13"),
 "C14": C("exploration", PBT+": distance model over arbitrary unambiguous tables and built genome sets, invariance relations (k-mer order, sample order, threads)",
   "Exact text comparison with the model for every pair; invariance under insertion order, sample permutation and thread count."+EXPL,
   "Unambiguous tables only (the property's domain).", "DESIGN.md §5 C14"),
 "C15": C("exploration", "complete enumeration of the lookup tables against a 4-bit set algebra + "+PBT+" for observation sequences",
   "All 1024 IUPAC cells, 256 complement cells, classification and weights enumerated completely in every run (exhaustive for the tables); stored codes for generated observation sequences equal the union."+EXPL,
   "RC_IUPAC['U'] and lower-case base_to_prob not asserted (unreachable).", "DESIGN.md §5 C15"),
 "C16": C("exploration", "complete enumeration of all k-mers for k<=11 (13 thorough) + structured k-mers for every k + "+PBT+" for random k-mers and rolling sequences",
   "Round trips, reverse complement, masks, single-window canonical form and hashes for every k-mer at small k; rolling vs from-scratch for generated sequences with N."+EXPL,
   "Harness packing is the documented encoding.", "DESIGN.md §5 C16"),
 "C11": C("exploration", PBT+": differential between thread counts and between repeated fresh processes (fresh hash seeds) for every subcommand with --threads; known-finding filter for ska lo on overlapping variant groups",
   "Sample counts on both sides of the parallel-merge rule, thread counts 1-16, repeated runs; outputs compared under the property's per-command equivalence; success at one thread implies success at all. Schedules are sampled by the OS, not enumerated."+EXPL,
   "Cannot own rayon's schedule; one recorded finding (ska lo, overlapping variant groups) is printed as KNOWN-FINDING.", "DESIGN.md §5 C11, §4 F11"),
 "C17": C("exploration", PBT+": constructed isolated-SNP genome sets through ska build/lo (with and without reference), validity predicates on arbitrary inputs",
   "Planted isolated SNPs must all be called (reference-free) with the true alleles; with a reference every call must be true and consistently written; arbitrary inputs must give well-formed output."+EXPL,
   "Completeness only inside the isolation preconditions (unique (k-1)-mers, >= 2k apart, >= k from the ends). One recorded finding (incomplete column when -m allows missing samples) is printed as KNOWN-FINDING.", "DESIGN.md §5 C17, §4 F13"),
 "C18": C("exploration", PBT+": constructed isolated-indel genome sets through ska build/lo; per-record validity predicate by sequence containment; aggregate recall",
   "Every indel record must describe a real difference with correct genotypes (a sample holding both forms: 0/1 or missing) and match one planted indel once; recall >= 90% in aggregate and within every stratum of the generated population (strata of 5-149 indels by an exact binomial tail)."+EXPL,
   "Preconditions by construction; recall aggregated over the run.", "DESIGN.md §5 C18"),
 "C19": C("fault_enumeration", "fault enumeration: every prefix and every single-bit flip of generated valid .skf files (small files always complete; multi-frame files complete in the thorough tier, boundary/header-complete + seeded sample in quick) through the CLI's load dispatch, plus CLI sample",
   "Oracle 'rejected or identical content' on five files (64/128-bit, single/multi-frame, compressed/uncompressed frames, one of 1.5 MiB in 25 frames; backup-like siblings holding another valid table lie next to every damaged file); CLI subcommands on rejected files must fail, leave the input untouched and write nothing.",
   "Fault model = truncation and single-bit flips only; files generated by the harness through the public API.", "DESIGN.md §5 C19"),
 "C20": C("exploration", PBT+": harness re-implementation of the mixture likelihood/gradient/cutoff vs hooked functions; simulated read pairs vs model histogram and CLI table",
   "Likelihood, analytic gradient (also vs finite differences) and cutoff at generated parameter points; exact histogram, cutoff, labels and densities for simulated read sets."+EXPL,
   "Needs the verif-hooks feature; optimiser convergence not asserted.", "DESIGN.md §5 C20"),
}
NOT_YET = {}
props=[json.loads(l) for l in open('/verif/properties.jsonl')]
checks=[]; na=[]
for p in props:
    i=p['id']
    if i in CLAIMED:
        c=CLAIMED[i]
        checks.append({
          "property_id": i,
          "quick_cmd": f"./run.sh {i} quick",
          "thorough_cmd": f"./run.sh {i} thorough",
          "evidence_file": f"evidence/{i}.json",
          "replay_cmd_template": f"./run.sh {i} quick --replay {{path}}",
          "engine": "vcheck (harness/src/bin/cNN)",
          "level_claimed": {"category": c['level'], "text": c['text'], "design_ref": c['ref']},
          "level_note": c['note'],
          "technique": c['technique'],
        })
    else:
        na.append({"property_id": i, "reason": NOT_YET.get(i, "check not built yet in this round (planned in DESIGN.md §5); not claimed until its check exists and is silent on the unchanged tree")})
m={
 "version": 1,
 "setup_cmd": "./setup.sh",
 "hooks": {
   "guard": "cargo feature verif-hooks",
   "enable": "cargo build --features verif-hooks (the harness depends on ska with features=[\"verif-hooks\"]; the CLI is built with --features verif-hooks)",
   "baseline_off_cmd": "cd /repo && cargo test --workspace --no-fail-fast --offline",
   "source_commits": ["15e21bd"],
   "add_only": True
 },
 "engines": [
   {"name": "vcheck", "path": "harness/", "serves_properties": sorted(CLAIMED), "kind_free_text": "Rust library + one binary per property (harness/src/bin/cNN.rs, so that an API change under one check does not stop the others from building): seeded parallel proptest runners (16 workers), string reference model, CLI driver with watchdog, shrinking to replay files, evidence writer"},
 ],
 "checks": checks,
 "not_applicable": na,
 "notes": "All checks: ./run.sh <ID> <quick|thorough> rebuilds harness and CLI from /repo's working tree, exit 0/1/2 (2 = inconclusive/infrastructure). VERIF_SEED selects the PRNG seed (default 1). Known findings: known-findings.txt."
}
json.dump(m, open('/verif/MANIFEST.json','w'), indent=1)
print("claimed", len(checks), "not_applicable", len(na))
