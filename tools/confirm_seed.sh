#!/bin/bash
# tools/confirm_seed.sh <ID> <dir with patch.diff and demo.sh> : confirm a seeded change myself in a
# scratch worktree: clean tree -> demo passes; with patch -> compiles, repository suite passes, demo fails.
set -u
ID=$1; SRC=$2
W=/tmp/cs/$ID
export CARGO_NET_OFFLINE=true
rm -rf $W; mkdir -p /tmp/cs
git -C /repo worktree add --detach $W HEAD >/dev/null 2>&1 || { echo "worktree failed"; exit 2; }
cd $W
cargo build --release --offline --target-dir /tmp/cs/target >/dev/null 2>&1 || { echo "clean build failed"; exit 2; }
cp /tmp/cs/target/release/ska /tmp/cs/ska_clean_$ID
mkdir -p /tmp/cs/demo_$ID; cp -r $SRC/* /tmp/cs/demo_$ID/
DEMO=$(ls /tmp/cs/demo_$ID/demo.* | head -1)
run_demo() { case "$DEMO" in *.sh) bash $DEMO $1;; *.py) python3 $DEMO $1;; esac; }
( cd /tmp/cs/demo_$ID && run_demo /tmp/cs/ska_clean_$ID >/tmp/cs/demo_clean_$ID.log 2>&1 ); C1=$?
git apply $SRC/patch.diff || { echo "patch does not apply"; exit 2; }
cargo build --release --offline --target-dir /tmp/cs/target >/tmp/cs/build_$ID.log 2>&1; B=$?
cp /tmp/cs/target/release/ska /tmp/cs/ska_mut_$ID
cargo test --workspace --no-fail-fast --offline --target-dir /tmp/cs/target-test >/tmp/cs/test_$ID.log 2>&1; T=$?
( cd /tmp/cs/demo_$ID && run_demo /tmp/cs/ska_mut_$ID >/tmp/cs/demo_mut_$ID.log 2>&1 ); C2=$?
PASSED=$(grep -E "^test result" /tmp/cs/test_$ID.log | awk '{p+=$4; f+=$6} END{print p" passed "f" failed"}')
echo "$ID: demo_on_clean_tree_exit=$C1 build_with_patch_exit=$B suite_with_patch_exit=$T ($PASSED) demo_with_patch_exit=$C2"
cd /; git -C /repo worktree remove --force $W; rm -rf /tmp/cs/demo_$ID /tmp/cs/ska_clean_$ID /tmp/cs/ska_mut_$ID
