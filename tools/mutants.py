#!/usr/bin/env python3
"""Sensitivity testing: apply small source edits (mutants) to a scratch worktree of /repo,
check that they compile and pass the repository's own test suite, and run the designated
checks against them through a private copy of the harness (so /repo itself is never touched).

usage: tools/mutants.py [--suite] [--only ID[,ID..]] [--tier quick]
Results are appended to /verif/notes/mutants-results.jsonl; scratch under /tmp/mut is removed at the end.
"""
import json, os, re, shutil, subprocess, sys, time

ROOT = "/tmp/mut"
WT = ROOT + "/wt"
VROOT = ROOT + "/vroot"

M = []
def mut(id, props, file, old, new, note="", **kw):
    d = dict(id=id, props=props, file=file, old=old, new=new, note=note)
    d.update(kw)
    M.append(d)

# ---- reverted fixes (the pinned-tree defects)
mut("F1-revert", ["C01", "C02", "C03", "C16"], "src/ska_dict/split_kmer.rs", "*idx + k > seq_len", "*idx + k >= seq_len", "window at record end dropped", count=2)
mut("F1-revert-first-only", ["C01", "C16"], "src/ska_dict/split_kmer.rs", "*idx + k > seq_len", "*idx + k >= seq_len", "record of length exactly k dropped", count=2, nth=0)
mut("F1-revert-after-N-only", ["C01", "C16"], "src/ska_dict/split_kmer.rs", "*idx + k > seq_len", "*idx + k >= seq_len", "window at record end after an N dropped", count=2, nth=1)
mut("F2-revert", ["C04", "C05"], "src/ska_ref.rs", "seq.push(seqrec.seq().to_ascii_uppercase());", "seq.push(seqrec.seq().to_vec());")
mut("F3-revert", ["C04"], "src/ska_ref.rs", "while sk.chrom > last_chrom {\n                    chrom_offset += seq[last_chrom].len();\n                    last_chrom += 1;", "if sk.chrom > last_chrom {\n                    chrom_offset += seq[last_chrom].len();\n                    last_chrom = sk.chrom;")
mut("F5-revert", ["C09", "C07"], "src/merge_ska_array.rs", "if ska_obj.k_bits != IntT::n_bits() {", "if false {")
mut("F6-revert", ["C10"], "src/merge_ska_array.rs", "self.update_counts(filter_ambig_as_missing);", "if filter_ambig_as_missing {\n            self.update_counts(true);\n        }")
mut("F8-revert", ["C12"], "src/ska_dict/split_kmer.rs", "(qual_seq[idx] - 33) >= min_qual", "(qual_seq[idx] - 33) > min_qual")
mut("F10-revert", ["C11"], "src/skalo/output_snps.rs", "alt_bases.sort_unstable();", "")
# ---- C01
mut("c01-lowercase-n-accepted", ["C01", "C16"], "src/ska_dict/bit_encoding.rs", "base & 0xF != 14", "base != b'N'")
mut("c01-first-kmer-palindrome", ["C01", "C15"], "src/ska_dict.rs",
    "                    let (kmer, base, _rc) = kmer_it.get_curr_kmer();\n                    if kmer_it.self_palindrome() {\n                        self.add_palindrome_to_dict(kmer, base);\n                    } else {\n                        self.add_to_dict(kmer, base);\n                    }",
    "                    let (kmer, base, _rc) = kmer_it.get_curr_kmer();\n                    self.add_to_dict(kmer, base);", "self-rc handling skipped for the first k-mer of a record")
mut("c01-rc-middle-after-N", ["C01", "C02", "C16"], "src/ska_dict/split_kmer.rs", "self.rc_middle_base = rc_base(self.middle_base);\n        self.rc_lower = self.upper.rev_comp", "self.rc_middle_base = self.middle_base ^ 2 ^ ((self.k as u8 >> 4) & 2);\n        self.rc_lower = self.upper.rev_comp", "wrong rc middle base for k>=32 after a restart")
# ---- C04 / C05
mut("c04-overhang-off-by-one", ["C04"], "src/ska_ref/aln_writer.rs", "(self.last_mapped + self.half_split_len).saturating_sub(self.last_written);", "(self.last_mapped + self.half_split_len).saturating_sub(self.last_written + 1);")
mut("c04-mask-flags-swapped-u128", ["C04"], "src/lib.rs",
    "let mut ska_ref = RefSka::<u128>::new(\n                    ska_array.kmer_len(),\n                    reference,\n                    ska_array.rc(),\n                    *ambig_mask,\n                    *repeat_mask,",
    "let mut ska_ref = RefSka::<u128>::new(\n                    ska_array.kmer_len(),\n                    reference,\n                    ska_array.rc(),\n                    *repeat_mask,\n                    *ambig_mask,")
mut("c04-next-pos-not-reset", ["C04"], "src/ska_ref/aln_writer.rs", "        self.curr_chrom += 1;\n        self.next_pos = self.half_split_len;", "        self.curr_chrom += 1;")
mut("c05-idxcheck-boundary", ["C05"], "src/ska_ref/idx_check.rs", "if self.idx >= self.end_coor[self.current_chr] {", "if self.idx > self.end_coor[self.current_chr] {")
mut("c05-alt-index", ["C05"], "src/ska_ref.rs", "(alt_bases.iter().position(|&r| r == alt_base).unwrap() + 1).to_string()", "alt_bases.len().to_string()")
# ---- C06
mut("c06-threshold-strict", ["C06", "C03"], "src/merge_ska_array.rs", "if *count >= min_count {", "if *count > min_count || min_count == 0 {")
mut("c06-nogap-ignored-in-ambig-or-const", ["C06"], "src/merge_ska_array.rs", "                                b'-' => {\n                                    if ignore_const_gaps {\n                                        0\n                                    } else {\n                                        1\n                                    }\n                                }", "                                b'-' => 1,")
mut("c06-floor-threshold", ["C06", "C14"], "src/generic_modes.rs", "let filter_threshold = f64::ceil(ska_array.nsamples() as f64 * min_freq) as usize;", "let filter_threshold = f64::floor(ska_array.nsamples() as f64 * min_freq) as usize;")
# ---- C07 / C08
mut("c07-extend-padding-width", ["C07", "C10"], "src/merge_ska_dict.rs", "let mut empty_samples = vec![0; self.n_samples];", "let mut empty_samples = vec![0; total_samples - self.n_samples];")
mut("c08-delete-keeps-empty-rows", ["C08", "C10"], "src/merge_ska_array.rs", "        self.names = new_names;\n        self.update_counts(false);", "        self.names = new_names;")
# ---- C11
mut("c11-parallel-merge-names", ["C11", "C02"], "src/merge_ska_dict.rs", "                    if self_name.is_empty() {\n                        swap(self_name, other_name);\n                    }", "                    if self_name.is_empty() && !other_name.ends_with('9') {\n                        swap(self_name, other_name);\n                    }", "a sample name lost in the parallel merge")
# ---- C12
mut("c12-count-starts-at-1", ["C12"], "src/ska_dict/bloom_filter.rs", "let mut count: u16 = 2;", "let mut count: u16 = 1;")
mut("c12-middle-quality-wrong-index", ["C12"], "src/ska_dict/split_kmer.rs", "Self::valid_qual(self.get_middle_pos(), self.qual, self.min_qual)", "Self::valid_qual(self.index, self.qual, self.min_qual)")
# ---- C13
mut("c13-reverse-inverted-u128", ["C13"], "src/lib.rs", "            } else if let Ok(mut ska_array) = MergeSkaArray::<u128>::load(skf_file) {\n                weed(\n                    &mut ska_array,\n                    weed_file,\n                    *reverse,", "            } else if let Ok(mut ska_array) = MergeSkaArray::<u128>::load(skf_file) {\n                weed(\n                    &mut ska_array,\n                    weed_file,\n                    !*reverse,")
# ---- C14
mut("c14-gap-gap-counted", ["C14"], "src/merge_ska_array.rs", "                if !(*var1 == b'-' && *var2 == b'-') {\n                    mismatches += 1.0;\n                }", "                mismatches += 1.0;")
# ---- C15
mut("c15-rc-K", ["C15", "C04"], "src/ska_dict/bit_encoding.rs", "    b'-', b'T', b'V', b'G', b'H', b'-', b'-', b'C', b'D', b'-', b'-', b'M', b'-', b'K', b'N',\n    b'-', // 64-79", "    b'-', b'T', b'V', b'G', b'H', b'-', b'-', b'C', b'D', b'-', b'-', b'K', b'-', b'K', b'N',\n    b'-', // 64-79")
mut("c15-is-ambiguous-N", ["C15", "C06"], "src/ska_dict/bit_encoding.rs", "b'a' | b'c' | b'g' | b't' | b'u' | b'-'", "b'a' | b'c' | b'g' | b't' | b'u' | b'n' | b'-'")
mut("c15-prob-B", ["C15"], "src/ska_dict/bit_encoding.rs", "b'B' => [0.0, 1.0 / 3.0, 1.0 / 3.0, 1.0 / 3.0],", "b'B' => [0.25, 0.25, 0.25, 0.25],")
# ---- C16
mut("c16-u128-shuffle-nibble", ["C16", "C01"], "src/ska_dict/bit_encoding.rs", "self = (self >> 16 & 0x0000FFFF0000FFFF0000FFFF0000FFFF)\n            | (self & 0x0000FFFF0000FFFF0000FFFF0000FFFF) << 16;", "self = (self >> 16 & 0x0000FFFF0000FFFF0000FFFF0000FFFF)\n            | (self & 0x0000FFFF0000FFFF0000FFFF0000FFFE) << 16;")
mut("c16-hash-roll-rotation", ["C16", "C12"], "src/ska_dict/nthash.rs", "^ RC_HASH_LOOKUP[new_base as usize].rotate_left(self.k as u32 - 1),", "^ RC_HASH_LOOKUP[new_base as usize].rotate_left(self.k as u32),")
mut("c16-skalo-decode", ["C16"], "src/ska_dict/bit_encoding.rs", "        for _ in 0..k {\n            let nucleotide =\n                decode_base(Self::as_u8(value & Self::from_encoded_base(0b11))) as char;\n            kmer.insert(0, nucleotide);", "        for i in 0..k {\n            let nucleotide =\n                decode_base(Self::as_u8(value & Self::from_encoded_base(0b11)) ^ ((i == 40) as u8)) as char;\n            kmer.insert(0, nucleotide);")
# ---- C17 / C18
mut("c17-one-allele-accepted", ["C17"], "src/skalo/process_variants.rs", "(valid_nucleotide_count >= 2, ratio_missing)", "(valid_nucleotide_count >= 1, ratio_missing)")
mut("c17-rc-position", ["C17"], "src/skalo/process_variants.rs", "position + (seq_length - pos - data_info.k_graph - 1) as u32", "position + (seq_length - pos - data_info.k_graph) as u32")
mut("c17-complement-skipped", ["C17"], "src/skalo/process_variants.rs", "                                complement_snp(&column)\n", "                                column\n")
mut("c18-genotypes-swapped", ["C18"], "src/skalo/process_indels.rs", "                        (true, false) => \"0\".to_string(),  // only REF\n                        (false, true) => \"1\".to_string(),  // only ALT", "                        (true, false) => \"1\".to_string(),  // only REF\n                        (false, true) => \"0\".to_string(),  // only ALT")
mut("c18-missing-as-ref", ["C18"], "src/skalo/process_indels.rs", "(false, false) => \".\".to_string(), // missing data", "(false, false) => \"0\".to_string(), // missing data")
# ---- C19
mut("c19-truncated-matrix-accepted", ["C19"], "src/merge_ska_array.rs", "        let ska_obj: Self = ciborium::de::from_reader(decompress_reader)?;\n        if ska_obj.k_bits", "        let mut ska_obj: Self = ciborium::de::from_reader(decompress_reader)?;\n        if ska_obj.variants.nrows() > ska_obj.split_kmers.len() {\n            ska_obj.variant_count.truncate(ska_obj.split_kmers.len());\n        }\n        if ska_obj.k_bits", "harmless-looking; no effect expected (control)")
# ---- C20
mut("c20-hist-index", ["C20"], "src/coverage.rs", "let kc = (*kmer_count - 1) as usize;", "let kc = *kmer_count as usize;")
mut("c20-truncation-le", ["C20"], "src/coverage.rs", ".skip_while(|x| **x < MIN_FREQ)", ".skip_while(|x| **x <= MIN_FREQ)")
mut("c20-grad-c-weight", ["C20"], "src/coverage.rs", "grad_c += *count * (dldb * (i_f64 / c - 1.0));", "grad_c += *count * (i_f64 / c - 1.0) * if dldb > 0.5 { 1.0 } else { dldb };")
mut("c20-label-le", ["C20"], "src/coverage.rs", "if (idx + 1) < self.cutoff {", "if (idx + 1) <= self.cutoff {")


def sh(cmd, cwd=None, env=None, timeout=3600):
    e = dict(os.environ); e["CARGO_NET_OFFLINE"] = "true"
    if env: e.update(env)
    p = subprocess.run(cmd, shell=True, cwd=cwd, env=e, capture_output=True, text=True, timeout=timeout)
    return p.returncode, p.stdout + p.stderr


def setup():
    os.makedirs(ROOT, exist_ok=True)
    if not os.path.isdir(WT):
        rc, out = sh(f"git -C /repo worktree add --detach {WT} HEAD")
        assert rc == 0, out
    # private verif root: harness copy with the path dependency rewritten
    os.makedirs(VROOT, exist_ok=True)
    if os.path.isdir(VROOT + "/harness"):
        shutil.rmtree(VROOT + "/harness")
    shutil.copytree("/verif/harness", VROOT + "/harness", ignore=shutil.ignore_patterns("target"))
    ct = open(VROOT + "/harness/Cargo.toml").read().replace('path = "/repo"', f'path = "{WT}"')
    open(VROOT + "/harness/Cargo.toml", "w").write(ct)
    for d in ["regress", "notes", "fixtures"]:
        if os.path.lexists(VROOT + "/" + d): os.remove(VROOT + "/" + d) if os.path.islink(VROOT + "/" + d) else shutil.rmtree(VROOT + "/" + d)
        os.symlink("/verif/" + d, VROOT + "/" + d)
    shutil.copy("/verif/known-findings.txt", VROOT + "/known-findings.txt")


def run_mutant(m, suite, tier):
    res = dict(id=m["id"], props=m["props"], note=m["note"])
    sh("git checkout -- . && git clean -fdq -e target", cwd=WT)
    if "patch" in m:
        rc, out = sh(f"git apply {m['patch']}", cwd=WT)
        if rc != 0:
            res["status"] = "PATCH DOES NOT APPLY"; res["log"] = out[-400:]
            return res
        return build_and_check(m, res, suite, tier)
    path = os.path.join(WT, m["file"])
    src = open(path).read()
    want = m.get("count", 1)
    if src.count(m["old"]) != want:
        res["status"] = f"PATTERN matched {src.count(m['old'])} times"
        return res
    if "nth" in m:
        parts = src.split(m["old"])
        src2 = m["old"].join(parts[: m["nth"] + 1]) + m["new"] + m["old"].join(parts[m["nth"] + 1 :])
    else:
        src2 = src.replace(m["old"], m["new"])
    open(path, "w").write(src2)
    return build_and_check(m, res, suite, tier)


def build_and_check(m, res, suite, tier):
    rc, out = sh(f"cargo build --release --offline --features verif-hooks --target-dir {ROOT}/target-cli", cwd=WT)
    if rc != 0:
        res["status"] = "DOES NOT COMPILE"; res["log"] = out[-600:]
        return res
    if suite:
        rc, out = sh(f"cargo test --workspace --no-fail-fast --offline --target-dir {ROOT}/target-test", cwd=WT)
        failed = re.findall(r"^test (\S+) \.\.\. FAILED", out, re.M)
        res["suite"] = "pass" if rc == 0 else "FAIL: " + ",".join(sorted(set(failed)))[:300]
    res["checks"] = {}
    for p in m["props"]:
        t0 = time.time()
        # one binary per property: a binary that no longer compiles against the changed API gives
        # no verdict (exit 2), exactly as run.sh reports it
        rc, out = sh(f"cargo build --release --offline --target-dir {ROOT}/target-harness --bin {p.lower()}", cwd=VROOT + "/harness")
        if rc != 0:
            err = [l for l in out.splitlines() if l.startswith("error")]
            res["checks"][p] = dict(exit=2, wall=round(time.time() - t0, 1), msg="check binary does not compile against the changed tree: " + (err[0][:200] if err else ""))
            continue
        rc, out = sh(f"{ROOT}/target-harness/release/{p.lower()} {p} {tier}", cwd=VROOT, env={"VERIF_ROOT": VROOT, "VERIF_SKA": f"{ROOT}/target-cli/release/ska", "VERIF_SEED": os.environ.get("VERIF_SEED", "1")})
        msg = [l for l in out.splitlines() if l.startswith("  stage=")]
        res["checks"][p] = dict(exit=rc, wall=round(time.time() - t0, 1), msg=(msg[0][:300] if msg else ""))
    res["status"] = "ok"
    return res


def main():
    suite = "--suite" in sys.argv
    only = None
    tier = "quick"
    for i, a in enumerate(sys.argv):
        if a == "--only": only = sys.argv[i + 1].split(",")
        if a == "--tier": tier = sys.argv[i + 1]
    setup()
    outp = "/verif/notes/mutants-results.jsonl"
    global M
    if "--patch" in sys.argv:
        i = sys.argv.index("--patch")
        M = [dict(id=sys.argv[i + 2], props=sys.argv[i + 3].split(","), patch=os.path.abspath(sys.argv[i + 1]), note="seeded by an independent sub-agent")]
        only = None
    for m in M:
        if only and m["id"] not in only and not any(m["id"].startswith(o) for o in only): continue
        r = run_mutant(m, suite, tier)
        r["tier"] = tier
        with open(outp, "a") as f: f.write(json.dumps(r) + "\n")
        caught = [p for p, c in r.get("checks", {}).items() if c["exit"] == 1]
        print(f"{r['id']:38s} {r['status']:10s} suite={r.get('suite','-'):12.40s} caught_by={caught} missed_by={[p for p,c in r.get('checks',{}).items() if c['exit']==0]} no_verdict={[p for p,c in r.get('checks',{}).items() if c['exit'] not in (0,1)]}", flush=True)
    sh("git checkout -- .", cwd=WT)
    if "--keep" not in sys.argv:
        sh(f"git -C /repo worktree remove --force {WT}")
        shutil.rmtree(ROOT, ignore_errors=True)


if __name__ == "__main__":
    main()
