#!/usr/bin/env python3
"""Validate MANIFEST.json and evidence/*.json against the schemas (run with python3-vt)."""
import json, sys, glob, jsonschema
ok = True
ms = json.load(open('/root/.vp/MANIFEST.schema.json')); es = json.load(open('/root/.vp/EVIDENCE.schema.json'))
try:
    m = json.load(open('/verif/MANIFEST.json')); jsonschema.validate(m, ms); print("MANIFEST ok,", len(m['checks']), "checks")
except Exception as e:
    ok = False; print("MANIFEST:", str(e)[:300])
for f in sorted(glob.glob('/verif/evidence/*.json')):
    try:
        e = json.load(open(f)); jsonschema.validate(e, es)
        print(f, "ok", e['tier'], e['coverage']['evaluations'], e['coverage']['distinct_nontrivial'], e['wall_s'])
    except Exception as ex:
        ok = False; print(f, "INVALID", str(ex)[:300])
sys.exit(0 if ok else 1)
