#!/bin/bash
# Regenerate evidence (quick tier, VERIF_SEED=1) for every property, validate, refresh the as-built table in DESIGN.md
cd "$(dirname "$0")/.."
export VERIF_SEED=1
for p in C01 C02 C03 C04 C05 C06 C07 C08 C09 C10 C11 C12 C13 C14 C15 C16 C17 C18 C19 C20; do
  ./run.sh $p quick 2>&1 | grep -E "^(OK|VIOLATION|INCONCLUSIVE|KNOWN-FINDING)" | cut -c1-160
done
python3 tools/mkmanifest.py
python3-vt tools/validate.py | tail -3
python3 - <<'PY'
import subprocess
t=subprocess.run(["python3","tools/asbuilt_table.py"],capture_output=True,text=True).stdout
p='DESIGN.md'; s=open(p).read()
a=s.index("<!-- ASBUILT-TABLE -->"); b=s.index("---------------------------------------------------------------------------------------------", a)
s=s[:a]+"<!-- ASBUILT-TABLE -->\nMeasured by one quick run (`VERIF_SEED=1`, 16 cores; `tools/asbuilt_table.py` from the evidence files):\n\n"+t+"\n"+s[b:]
open(p,'w').write(s)
PY
