#!/usr/bin/env python3
"""Write /verif/seeded/<ID>/meta.json from the descriptions below and the sensitivity results
(notes/mutants-results.jsonl, entries seeded-<ID>)."""
import json, os
NEEDS = {
 "C01": ("SplitKmer::build: end-of-record test after skipping an N uses >= again (half of F1)", "a record in which the last N-free run is exactly k long and reaches the record end (e.g. ACGTTGCAAnGATTACA at k=7)"),
 "C02": ("same one-token change as seeded/C01, found independently for the strand-invariance property", "an N exactly k+1 bases before the record end; the record and its reverse complement then give different dictionaries"),
 "C03": ("u128 rev_comp: 32-bit-swap mask left at 64-bit width", "k >= 51, a substitution near the minimum distance from a contig end, samples carrying the contig in opposite orientations"),
 "C04": ("lib.rs Map arm, 128-bit branch: ambig_mask and repeat_mask arguments swapped", "k >= 33 and exactly one of --ambig-mask / --repeat-mask, on input where the two masks differ"),
 "C05": ("write_vcf compares converted VCF bases instead of raw bytes: '-' equals a non-ACGT reference base", "a reference containing N: the record REF=N with all genotypes '.' is silently dropped"),
 "C06": ("lib.rs Align arm, 128-bit branch: ambig_mask and no_gap_only_sites swapped", "k >= 33 and exactly one of --ambig-mask / --no-gap-only-sites on data with ambiguity codes or gap-only sites"),
 "C07": ("merge(): the running dictionary and the next file are swapped when the next file has more k-mers", "a later file with strictly more split k-mers than everything merged before it: sample order no longer follows argument order"),
 "C08": ("delete_samples: column indices looked up in the order names were passed, walk assumes ascending order", ">= 2 names given in an order different from their order in the file (command line or -f)"),
 "C09": ("load(): stored-width check loosened from != to <", "k >= 35 file whose k-mers all fit 64 bits: map/weed misbehave, merge becomes order dependent"),
 "C10": ("delete_samples skips the recount when every stored count exceeds the number of removed samples", "two successive deletes on a table where every k-mer is in more samples than the first delete removes, with a k-mer private to the deleted samples: all-gap rows survive"),
 "C11": ("parallel_append: top half of the recursive (depth > 1) branch gets split_point instead of offset + split_point", "merge recursion depth >= 3: --threads >= 8 and >= 70 input files"),
 "C12": ("add_file_kmers: middle_base_qual() no longer consulted for the first split k-mer of each read", "--qual-filter middle and a read whose first window's middle base is below --min-qual"),
 "C13": ("RefSka::new: n_kmers = len - k (one too small) reused as a guard", "a weed (or reference) record of length exactly k"),
 "C14": ("distance(): first frequency pass skipped unless trunc(min_freq*n) > 1", ">= 3 samples, k-mers present in one sample only, min_freq*n strictly between 1 and 2"),
 "C15": ("IUPAC table: upper-case cell G + H returns H instead of N", "a split k-mer seen with A, C and T and then G as the fourth distinct middle base within one sample"),
 "C16": ("u128 rev_comp: 4-bit swap mask one byte short", "u128 and k = 63, first two windows of a contig or after an N, reverse strand canonical"),
 "C17": ("SNP missing-data filter: <= max_missing became < max_missing", "ska lo -m 0 (or a column whose missing fraction equals -m exactly)"),
 "C18": ("process_indels: REF/ALT strings chosen with >=, genotype bitsets with >", "an indel carried by exactly half of the samples (tie): every sample is genotyped for the allele it does not carry"),
 "C19": ("merge(): load errors of the second and later inputs silently dropped (flat_map over Result)", "ska merge a.skf DAMAGED.skf -o m: exits 0 and writes m.skf without the damaged file's samples"),
 "C20": ("fit_histogram truncation: < MIN_FREQ became <= MIN_FREQ", "a read pair whose last multiplicity shared by >= 50 split k-mers is shared by exactly 50"),
 # second batch: the agents were asked for a different kind of change than the obvious single-token one
 "C01b": ("add_file_kmers skips the dictionary update when the window has the same split k-mer as the previous one (stale last_added, carried across records)", "two consecutive windows with the same arms and different middle bases: a homopolymer junction c^(h+1) d^(h+1), or the last window of a record and the first of the next"),
 "C02b": ("self_palindrome() returns a cached flag that is only refreshed when a k-mer is built from scratch", "a self-reverse-complement split k-mer reached by rolling (not first after a record start or an N), or any k-mer following one at a record start"),
 "C03b": ("sample sequences read through raw_seq() (line breaks kept) instead of seq()", "a sample FASTA with wrapped sequence lines"),
 "C04b": ("RefSka::new: first reference k-mer of every contig placed at (k-1)/2 instead of get_middle_pos()", "a reference contig with an N within its first k bases"),
 "C05b": ("write_vcf transposes in blocks of 65536 columns and loses one (contig, position) pair per block boundary", "a reference longer than 65536 bases"),
 "C06b": ("filter(): the --ambig-mask block moved before the row filter", "--ambig-mask with --filter no-const on a site whose distinct symbols are all ambiguity codes (R,Y -> N,N judged constant)"),
 "C07b": ("extend() no longer pads rows absent from the merged file; padding deferred to save time", "one ska merge call with >= 3 files and a k-mer present in file i, absent from file j, present in a later file"),
 "C08b": ("delete_samples: indices returned in request order by a new helper, forward cursor assumes ascending order", ">= 2 names listed in an order different from the file's"),
 "C09b": ("MergeSkaDict::extend returns early when the other dictionary has no k-mers", "merging an .skf whose table was emptied by weed/filter, in any position but the first: its samples vanish"),
 "C10b": ("delete_samples subtracts from the stored counts instead of recounting", "a saved weed --filter-ambig-as-missing pass followed by a delete that removes all unambiguous bases of a row that still holds an ambiguity code"),
 "C11b": ("ska lo graph building: par_chunks_exact(n/threads) drops the remainder k-mers", "ska lo --threads >= 2 with a k-mer count not divisible by the thread count and a dropped k-mer near a variant"),
 "C12b": ("rolling hash created once in SplitKmer::new and not re-seeded when build() restarts after an invalid base", "FASTQ, --min-count >= 2, a read with an N (or strict-filtered base) followed by >= k valid bases"),
 "C13b": ("weed --reverse fast path selects rows per weed k-mer without de-duplication", "--reverse, weed file smaller than the skf and containing the same canonical split k-mer more than once"),
 "C14b": ("MergeSkaArray::distance returns an empty matrix when the variant array is empty after filtering", "every k-mer surviving --min-freq is constant and present in all samples (e.g. identical samples): only the header is printed"),
 "C15b": ("variant_dist: byte-identical middle bases short-circuit to distance 0", "two samples holding the same ambiguity code (or N) at a k-mer that still varies across >= 3 samples"),
 "C16b": ("NtHashIterator::restart recomputes the forward hash only; the reverse-strand hash keeps rolling from before the N", "reads (hash in use), two-strand mode, an N followed by >= k valid bases"),
 "C17b": ("snps.vcf: genotype indices computed against ALT in first-appearance order while ALT is printed sorted", "ska lo -r, a site with >= 2 non-reference alleles whose alphabetically larger ALT appears first among the samples"),
 "C18b": ("same idea as seeded/C18, found independently: allele strings chosen with >=, bitsets with >", "an indel carried by exactly half of the samples"),
 "C19b": ("merge(): later inputs loaded on a prefetch thread; a load error only closes the channel", "ska merge a.skf DAMAGED.skf c.skf: exits 0 and writes a file with a's samples only"),
 # third batch: scale / numeric boundary / dispatch / output writing
 "C01c": ("u128 rev_comp: nibble-swap mask literal two hex digits short (same site as seeded/C16, found independently)", "k = 63, two-strand mode, a k-mer built from scratch whose reverse complement is canonical"),
 "C02c": ("u128 rev_comp: 16-bit-swap mask one group short, bits 96-127 dropped", "k >= 51, two-strand mode: a record and its reverse complement give different dictionaries"),
 "C03c": ("get_input_list sorts (and dedups) the input samples by name", "ska build with sample names not in byte-wise sorted order (e.g. s1..s10, or zeta/alpha/mid): samples come out in name order, not input order"),
 "C04c": ("RefKmer pos/chrom narrowed to u32/u16 with `as` casts", "a reference with more than 65536 records and a match on a contig with index >= 65536"),
 "C05c": ("write_vcf skips sites where all samples equal the reference, comparing 8 samples at a time and ignoring the remainder", ">= 9 samples, count not a multiple of 8, a site that differs only in the last n % 8 samples"),
 "C06c": ("Align arm, 128-bit branch passes DEFAULT_CONSTGAPS instead of --no-gap-only-sites", "k >= 33, --no-gap-only-sites with a constant-site filter and a base-versus-gap-only site"),
 "C07c": ("Merge arm opens <output>.skf (create, no truncate) before loading the inputs", "a refused merge: exit status non-zero as before, but an empty output file is left behind"),
 "C08c": ("delete: positional names get value_delimiter = ','", "a sample name containing a comma passed on the command line"),
 "C09c": ("Weed arm, 128-bit branch ignores -o and overwrites the input", "k >= 33 file, ska weed ... -o OUT.skf"),
 "C10c": ("update_counts sums presence in a u8", "a file with >= 256 samples and a k-mer present in >= 256 of them, followed by delete/align/distance/weed"),
 "C11c": ("multi_append (parallel path only) no longer forwards the second read file", "paired FASTQ through a three-column file list, >= 10 samples, --threads >= 2"),
 "C12c": ("Build arm, 128-bit branch fills --qual-filter from Default (strict)", "k >= 33 with --qual-filter middle or no-filter and a low-quality non-middle base"),
 "C13c": ("RefSka::new hands the raw record buffer (line breaks included) to the k-mer iterator", "a weed (or reference) FASTA with wrapped sequence lines"),
 "C14c": ("Distance arm, 128-bit branch passes 0.0 instead of --min-freq", "k >= 33, --min-freq with threshold >= 2 and a k-mer below it"),
 "C15c": ("Distance arm, 128-bit branch passes allow_ambiguous where filter_ambiguous is expected", "k >= 33, ska distance --allow-ambiguous on a table with ambiguity codes: every code is masked to N"),
 "C16c": ("u64 rev_comp: 16-bit-swap mask 0x0000_0000_0000_FFFF", "64-bit path, k in {27,29,31}, two-strand mode, k-mers built from scratch"),
 "C17c": ("ska lo reference reader: GzDecoder instead of MultiGzDecoder", "ska lo -r with a .gz reference of more than one gzip member and a SNP beyond the first member"),
 "C18c": ("skalo(): sample names sorted in place before use (duplicate check)", "an skf whose sample order is not lexicographically sorted: headers of the lo outputs are sorted while the genotype columns stay in skf order"),
 "C19c": ("merge(): a later input that fails to load is skipped with a warning", "a damaged .skf in a non-first position of ska merge"),
 "C20c": ("CoverageHistogram counts in a saturating u8", ">= 50 distinct split k-mers with multiplicity above 255 (multi-copy element or very deep data)"),
 # fourth batch: invocation, file layout, unusual but legal auxiliary input
 "C01d": ("add_file_kmers reads raw_seq() and strips only LF: a CR is encoded as a base", "a wrapped FASTA with Windows (CRLF) line endings"),
 "C02d": ("FASTQ detection by file name (.fastq, .fq, .fastq.gz) instead of by content", "reads in a file named *.fq.gz: built as an assembly, the count filter is not applied"),
 "C03d": ("valid_base whitelists upper-case A/C/G/T/U: lower-case bases break the k-mer like N", "a sample with soft-masked (lower-case) bases near a substituted site"),
 "C04d": ("set_ostream opens the -o target without truncation", "ska map -o FILE where FILE exists and is longer than the new output: stale records remain"),
 "C05d": ("same set_ostream change, found independently for the VCF output", "ska map -f vcf -o FILE into an existing longer file"),
 "C06d": ("same set_ostream change, found independently for ska align", "ska align -o FILE into an existing longer file"),
 "C07d": ("save_skf builds the file name with Path::with_extension", "an output prefix whose file name contains a dot (merge -o batch.12 writes batch.skf)"),
 "C08d": ("names file split at LF and the last element dropped unconditionally", "a names file whose last line has no trailing newline: the last name is lost"),
 "C09d": ("shared skf_filename helper using with_extension (build, merge, delete)", "an output prefix with a dot: the table is saved under another name and can overwrite an unrelated file"),
 "C10d": ("same with_extension helper, found independently", "delete -o all.sub overwrites all.skf; build -o run.1 / run.2 clobber each other"),
 "C11d": ("build_and_merge re-deals paired-read inputs between assemblies on the parallel branch only (balance_inputs)", "ska build -f list mixing two-column (FASTA) and three-column (paired FASTQ) lines, >= 10 samples and --threads >= 2: sample order differs from the serial build"),
 "C12d": ("NtHashIterator::new seeds the hash by upper-case ASCII letter; roll_fwd still uses the 2-bit code", "paired FASTQ, --min-count >= 2, a read with a lower-case base in its first window whose k-mers occur elsewhere in other case"),
 "C13d": ("RefSka::new skips records whose name (first header token) was already seen", "a weed FASTA in which two records share their first header token (>IS1 copy1 / >IS1 copy2)"),
 "C14d": ("distance(): the frequency pre-filter became an argument of log::info! and only runs under -v", "ska distance without -v, --min-freq with threshold >= 2, k-mers below it"),
 "C15d": ("add_palindrome_to_dict, S arm: bases tested with G assumed to be code 2", "a self-reverse-complement split k-mer first seen with C or G and then with G or T"),
 "C16d": ("same ASCII seed table as C12d, found independently", "rolled hash vs from-scratch hash of a window with lower-case bases (FASTQ, min-count >= 2)"),
 "C17d": ("ska lo reference reader strips LF only: CR counted as a genome position", "ska lo -r with a wrapped CRLF reference and a SNP beyond the first line"),
 "C18d": ("indel VCF header lists the samples sorted, genotype columns stay in skf order", "an skf whose sample names are not in lexicographic order"),
 "C19d": ("load() falls back to NAME.skf when NAME fails to load for any reason", "a damaged file named without the .skf suffix with an intact NAME.skf beside it (the layout weed -o NAME leaves)"),
 "C20d": ("ska cov treats base calls of quality <= 2 like N (Strict filter with min_qual 3)", "FASTQ reads with quality characters ! \" or # on called bases"),
 "C20b": ("CoverageHistogram::new: break instead of skip at the first read without a valid split k-mer", "a read shorter than k or with every N-free stretch shorter than k, followed by more reads in the same file"),
}
HISTORY = {
 "C10": "missed by the first version of the C10 check (quick tier: no history reached two successive deletes on a table without low counts); the generator was strengthened (30% of histories start from twin samples so that every k-mer is in >= 2 samples; single-sample deletes favoured) and now reports it",
 "C11": "missed by the first version of the C11 check (sample counts stopped at 45, merge recursion depth <= 2); sample counts {69,70,72,149,150,161} with forced thread counts >= 8/16 were added and now report it",
 "C05b": "missed by the version of the C05 check that existed when it was written (references stayed below 1200 bases); the large_reference stages (first contig 65300-67300 bases) were added to C04 and C05 and now report it",
 "C09b": "missed by the version of the C09/C10 checks that existed when it was written (an emptied table was never merged); C09's CLI stage now merges the possibly empty filtered file in both orders and C10 histories continue with merges after the table became empty",
 "C15b": "outside what the C15 check observed when it was written (lookup tables and stored codes only); the weights_in_use stage (pairwise distances over tables with ambiguity codes vs the uniform-weight model) was added and reports it",
 "C03b": "reported by C01 and C02 but missed by C03 itself (sample files were written unwrapped); C03 now wraps sample FASTA files at generated widths",
 "C03c": "reported by C02 and C07 when written, but missed by C03 itself (its sample names smp0..smp9 were already in sorted order); C03 and the shared sample-set generator now use names that are not in sorted order",
 "C04c": "missed when written (references had at most 5 contigs); the large_reference stages now include references with more than 65536 contigs",
 "C05c": "missed when written (1-4 samples); a sixth of the C04/C05 cases now have 9-12 samples",
 "C08c": "missed when written (names were s0..s7); the shared sample-set generator now uses names with a comma, a dot, '=', '#' and '-' inside",
 "C10c": "missed when written (at most 12 samples in histories); C10 has a wide_tables stage with 255-513 samples",
 "C11c": "missed when written (C11 built from FASTA only); the pipeline stage now also builds from paired FASTQ files through a three-column list",
 "C13c": "reported by C04 (wrapped references) but missed by C13 itself (its weed FASTA was written unwrapped); C13 now wraps the weed file at generated widths",
 "C15c": "missed when written (the weights were only observed in-process, below the command-line dispatch); the weights_through_cli stage runs ska distance --allow-ambiguous on tables with ambiguity codes for both integer widths",
 "C17c": "missed when written (references were plain files); a third of the -r cases now use a gzip reference, most of them with two gzip members",
 "C18c": "missed when written (sample names smp0..smp7 were already sorted and the header of the indel VCF was not read); names are now unsorted and the sample columns of the indel VCF must be in input order",
 "C20c": "missed when written (multiplicities never exceeded about 150); an eighth of the read sets now contain a 4-6 kb element in 6-8 copies at coverage >= 50, so that >= 50 k-mers share multiplicities above 255",
 "C01d": "missed when written (all generated text files had Unix line endings); C01 and C02 now also write FASTA files with CRLF line endings",
 "C02d": "missed when written (read files were always named *.fastq[.gz]); C12 now names them .fastq, .fq, .fastq.gz or .fq.gz",
 "C03d": "reported by C01 (mixed case) but missed by C03 itself (upper-case samples); C03 now soft-masks samples with a generated lower-case mask",
 "C04d": "missed when written: the -o route had just been added and removed the output file first; the -o target is now an existing, long file (cli::plant_stale_output) in C04, C05, C06 and C14",
 "C05d": "see C04d",
 "C06d": "see C04d",
 "C07d": "missed when written (prefixes without dots); C07, C08, C09 and C10 now also use output prefixes with a dot of their own (m.v1, y.2, x.v2, tmp.1)",
 "C09d": "see C07d",
 "C10d": "see C07d",
 "C08d": "missed when written (names files always ended in a newline); names files are now written in five layouts: with and without a final newline, CRLF, trailing blank line, trailing white space",
 "C11d": "missed when written (build lists were all-FASTA or all-FASTQ); half of the FASTQ pipeline cases now mix two-column and three-column lines in one list",
 "C12d": "reported by C16 (rolled vs fresh hash on mixed-case sequence) but missed by C12 itself (upper-case reads); a third of the C12 reads are now partly lower case",
 "C13d": "missed when written (weed records were named r0, r1, ...); half of the weed files now carry header descriptions and share their first token in groups of three",
 "C17d": "missed when written (LF references); every fourth ska lo reference now has CRLF line endings",
 "C19d": "missed when written (damaged files were always called d.skf); half of the damaged files of the CLI stage are now called d with the intact file as d.skf beside them",
 "C20d": "missed when written (all base qualities were 'I'); half of the read sets now carry arbitrary quality characters including ! \" #",
 "C17": "missed by the first version of the C17 check (ska lo was always run with the default -m or 0.4); the -m values 0, 0.05, 0.4, 1 were added to the isolated-SNP stages and now report it",
}
res = {}
p = '/verif/notes/mutants-results.jsonl'
if os.path.exists(p):
    for l in open(p):
        r = json.loads(l)
        if r['id'].startswith('seeded-'):
            k = r['id'][7:]
            # later runs add checks; keep the union, newest verdict per check
            if k in res:
                res[k]['checks'].update(r.get('checks', {}))
            else:
                res[k] = r
for pid, (what, needs) in NEEDS.items():
    d = f'/verif/seeded/{pid}'
    if not os.path.isdir(d): continue
    r = res.get(pid, {})
    checks = r.get('checks', {})
    meta = {
      "breaks_property": pid,
      "change": what,
      "needs_to_manifest": needs,
      "written_by": "independent sub-agent given only the property text and a scratch worktree (nothing from /verif)",
      "confirmed_by_me": "tools/confirm_seed.sh in a fresh scratch worktree of /repo HEAD: demo exits 0 on the clean tree; with patch.diff applied the crate compiles, the repository suite passes (52 passed, 0 failed) and the demo exits 1",
      "checks_run_against_it": {k: {"exit": v["exit"], "verdict": "VIOLATION reported" if v["exit"] == 1 else ("held (missed)" if v["exit"] == 0 else "inconclusive"), "wall_s": v["wall"], "message": v["msg"][:240]} for k, v in checks.items()},
      "caught_by": [k for k, v in checks.items() if v["exit"] == 1],
      "check_history": HISTORY.get(pid, "caught by the check as first built"),
      "how_run": "tools/mutants.py --patch seeded/%s/patch.diff (scratch worktree + private copy of the harness, quick tier, VERIF_SEED=1)" % pid,
    }
    json.dump(meta, open(d + '/meta.json', 'w'), indent=1)
    print(pid, meta["caught_by"], [k for k in checks if k not in meta["caught_by"]])
