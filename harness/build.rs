//! Probes the ska source tree the harness is built against for the two public lookup tables that
//! C15's `tables` stage reads directly. A tree that has replaced a table by a function still builds:
//! the stage then decides the union algebra through `SkaDict` builds only (and says so in the evidence).
use std::path::PathBuf;

fn main() {
    println!("cargo:rustc-check-cfg=cfg(ska_iupac_table)");
    println!("cargo:rustc-check-cfg=cfg(ska_rc_iupac_table)");
    let manifest = std::fs::read_to_string("Cargo.toml").unwrap_or_default();
    let mut ska_path = PathBuf::from("/repo");
    for line in manifest.lines() {
        if line.trim_start().starts_with("ska") {
            if let Some(i) = line.find("path") {
                let rest = &line[i..];
                let mut it = rest.split('"');
                it.next();
                if let Some(p) = it.next() {
                    ska_path = PathBuf::from(p);
                }
            }
        }
    }
    let f = ska_path.join("src/ska_dict/bit_encoding.rs");
    println!("cargo:rerun-if-changed={}", f.display());
    println!("cargo:rerun-if-changed=Cargo.toml");
    let src = std::fs::read_to_string(&f).unwrap_or_default();
    let has = |name: &str| src.lines().any(|l| {
        let t = l.trim_start();
        t.starts_with(&format!("pub const {name}:")) || t.starts_with(&format!("pub static {name}:"))
    });
    if has("IUPAC") {
        println!("cargo:rustc-cfg=ska_iupac_table");
    }
    if has("RC_IUPAC") {
        println!("cargo:rustc-cfg=ska_rc_iupac_table");
    }
}
