//! Reference model: string based, independent of every bit trick in /repo.

use std::collections::BTreeMap;

/// order of bases in the documented encoding: A < C < T < G
pub fn rank(b: u8) -> u8 {
    match b {
        b'A' => 0,
        b'C' => 1,
        b'T' => 2,
        b'G' => 3,
        _ => panic!("rank of non-ACGT {}", b as char),
    }
}

pub const BASES: [u8; 4] = [b'A', b'C', b'G', b'T'];

pub fn comp(b: u8) -> u8 {
    match b {
        b'A' => b'T',
        b'C' => b'G',
        b'G' => b'C',
        b'T' => b'A',
        b'a' => b't',
        b'c' => b'g',
        b'g' => b'c',
        b't' => b'a',
        other => other,
    }
}

pub fn revcomp(s: &[u8]) -> Vec<u8> {
    s.iter().rev().map(|b| comp(*b)).collect()
}

pub fn upper(s: &[u8]) -> Vec<u8> {
    s.iter().map(|b| b.to_ascii_uppercase()).collect()
}

pub fn is_acgt(b: u8) -> bool {
    matches!(b, b'A' | b'C' | b'G' | b'T')
}

/// bit mask of a base: A=1 C=2 G=4 T=8
pub fn base_mask(b: u8) -> u8 {
    match b {
        b'A' => 1,
        b'C' => 2,
        b'G' => 4,
        b'T' => 8,
        _ => panic!("mask of non-ACGT"),
    }
}

/// IUPAC letter of a non-empty subset of {A,C,G,T} (mask A=1 C=2 G=4 T=8)
pub fn code_of_mask(m: u8) -> u8 {
    match m {
        1 => b'A',
        2 => b'C',
        4 => b'G',
        8 => b'T',
        5 => b'R',  // A G
        10 => b'Y', // C T
        6 => b'S',  // C G
        9 => b'W',  // A T
        12 => b'K', // G T
        3 => b'M',  // A C
        14 => b'B', // C G T
        13 => b'D', // A G T
        11 => b'H', // A C T
        7 => b'V',  // A C G
        15 => b'N',
        _ => panic!("no code for mask {m}"),
    }
}

/// set of an IUPAC letter (upper case); None for anything else
pub fn mask_of_code(c: u8) -> Option<u8> {
    Some(match c {
        b'A' => 1,
        b'C' => 2,
        b'G' => 4,
        b'T' => 8,
        b'R' => 5,
        b'Y' => 10,
        b'S' => 6,
        b'W' => 9,
        b'K' => 12,
        b'M' => 3,
        b'B' => 14,
        b'D' => 13,
        b'H' => 11,
        b'V' => 7,
        b'N' => 15,
        _ => return None,
    })
}

pub const CODES: [u8; 15] = [
    b'A', b'C', b'G', b'T', b'R', b'Y', b'S', b'W', b'K', b'M', b'B', b'D', b'H', b'V', b'N',
];

/// complement of a set: A<->T (1<->8), C<->G (2<->4)
pub fn comp_mask(m: u8) -> u8 {
    let mut o = 0;
    if m & 1 != 0 {
        o |= 8;
    }
    if m & 8 != 0 {
        o |= 1;
    }
    if m & 2 != 0 {
        o |= 4;
    }
    if m & 4 != 0 {
        o |= 2;
    }
    o
}

/// complement of a symbol (code or '-')
pub fn comp_symbol(c: u8) -> u8 {
    match mask_of_code(c) {
        Some(m) => code_of_mask(comp_mask(m)),
        None => c,
    }
}

/// all windows of k consecutive ACGT (either case) characters: (start, upper-cased window)
pub fn windows(seq: &[u8], k: usize) -> Vec<(usize, Vec<u8>)> {
    let mut out = Vec::new();
    if seq.len() < k {
        return out;
    }
    let up = upper(seq);
    // run length of valid bases ending at i
    let mut run = 0usize;
    for i in 0..up.len() {
        if is_acgt(up[i]) {
            run += 1;
        } else {
            run = 0;
        }
        if run >= k {
            let start = i + 1 - k;
            out.push((start, up[start..=i].to_vec()));
        }
    }
    out
}

/// arms and middle of a window
pub fn split(w: &[u8]) -> (Vec<u8>, u8) {
    let h = (w.len() - 1) / 2;
    let mut arms = Vec::with_capacity(w.len() - 1);
    arms.extend_from_slice(&w[..h]);
    arms.extend_from_slice(&w[h + 1..]);
    (arms, w[h])
}

pub fn arms_less(a: &[u8], b: &[u8]) -> std::cmp::Ordering {
    for (x, y) in a.iter().zip(b.iter()) {
        let (rx, ry) = (rank(*x), rank(*y));
        if rx != ry {
            return rx.cmp(&ry);
        }
    }
    a.len().cmp(&b.len())
}

pub struct Canon {
    pub arms: Vec<u8>,
    pub middle: u8,
    pub is_rc: bool,
    pub self_rc: bool,
}

/// canonical form of a window (upper-case ACGT)
pub fn canon(w: &[u8], use_rc: bool) -> Canon {
    let (arms, m) = split(w);
    if !use_rc {
        return Canon {
            arms,
            middle: m,
            is_rc: false,
            self_rc: false,
        };
    }
    let r = revcomp(w);
    let (rarms, rm) = split(&r);
    match arms_less(&arms, &rarms) {
        std::cmp::Ordering::Greater => Canon {
            arms: rarms,
            middle: rm,
            is_rc: true,
            self_rc: false,
        },
        std::cmp::Ordering::Equal => Canon {
            arms,
            middle: m,
            is_rc: false,
            self_rc: true,
        },
        std::cmp::Ordering::Less => Canon {
            arms,
            middle: m,
            is_rc: false,
            self_rc: false,
        },
    }
}

/// sample dictionary: arms -> mask of middle bases
pub type SampleDict = BTreeMap<Vec<u8>, u8>;

pub fn build_sample(records: &[Vec<u8>], k: usize, use_rc: bool) -> SampleDict {
    let mut d: SampleDict = BTreeMap::new();
    for rec in records {
        for (_, w) in windows(rec, k) {
            let c = canon(&w, use_rc);
            let mut m = base_mask(c.middle);
            if c.self_rc {
                m |= base_mask(comp(c.middle));
            }
            *d.entry(c.arms).or_insert(0) |= m;
        }
    }
    d
}

/// A table: ordered sample names, arms -> symbols (code or '-'), no all-gap rows
#[derive(Clone, Debug, PartialEq, Eq)]
pub struct Table {
    pub names: Vec<String>,
    pub rows: BTreeMap<Vec<u8>, Vec<u8>>,
}

impl Table {
    pub fn from_samples(names: &[String], dicts: &[SampleDict]) -> Table {
        let n = dicts.len();
        let mut rows: BTreeMap<Vec<u8>, Vec<u8>> = BTreeMap::new();
        for (i, d) in dicts.iter().enumerate() {
            for (arms, m) in d {
                rows.entry(arms.clone()).or_insert_with(|| vec![b'-'; n])[i] = code_of_mask(*m);
            }
        }
        Table {
            names: names.to_vec(),
            rows,
        }
    }

    pub fn nsamples(&self) -> usize {
        self.names.len()
    }

    /// concatenate columns (ska merge): self's samples first
    pub fn merge(&self, other: &Table) -> Table {
        let (n1, n2) = (self.nsamples(), other.nsamples());
        let mut names = self.names.clone();
        names.extend(other.names.iter().cloned());
        let mut rows: BTreeMap<Vec<u8>, Vec<u8>> = BTreeMap::new();
        for (a, r) in &self.rows {
            let mut v = r.clone();
            v.extend(std::iter::repeat(b'-').take(n2));
            rows.insert(a.clone(), v);
        }
        for (a, r) in &other.rows {
            let e = rows
                .entry(a.clone())
                .or_insert_with(|| vec![b'-'; n1 + n2]);
            e[n1..].copy_from_slice(r);
        }
        Table { names, rows }
    }

    /// drop the named samples, then rows that became empty
    pub fn delete(&self, del: &[String]) -> Table {
        let keep: Vec<usize> = (0..self.nsamples())
            .filter(|i| !del.contains(&self.names[*i]))
            .collect();
        let names = keep.iter().map(|i| self.names[*i].clone()).collect();
        let mut rows = BTreeMap::new();
        for (a, r) in &self.rows {
            let v: Vec<u8> = keep.iter().map(|i| r[*i]).collect();
            if v.iter().any(|b| *b != b'-') {
                rows.insert(a.clone(), v);
            }
        }
        Table { names, rows }
    }

    /// keep rows whose arms are not in `set` (reverse: are in `set`)
    pub fn weed(&self, set: &std::collections::BTreeSet<Vec<u8>>, reverse: bool) -> Table {
        let rows = self
            .rows
            .iter()
            .filter(|(a, _)| set.contains(*a) == reverse)
            .map(|(a, r)| (a.clone(), r.clone()))
            .collect();
        Table {
            names: self.names.clone(),
            rows,
        }
    }

    /// the documented filter: returns the surviving rows (masked if requested)
    pub fn filter(&self, f: &FilterSpec) -> Table {
        let mut rows = BTreeMap::new();
        for (a, r) in &self.rows {
            if row_passes(r, f) {
                let v: Vec<u8> = if f.ambig_mask {
                    r.iter().map(|b| if sym_is_ambig(*b) { b'N' } else { *b }).collect()
                } else {
                    r.clone()
                };
                rows.insert(a.clone(), v);
            }
        }
        Table {
            names: self.names.clone(),
            rows,
        }
    }

    /// multiset of column strings (one per row), sorted
    pub fn columns(&self) -> Vec<Vec<u8>> {
        let mut v: Vec<Vec<u8>> = self.rows.values().cloned().collect();
        v.sort();
        v
    }
}

#[derive(Clone, Copy, Debug, PartialEq, Eq, serde::Serialize, serde::Deserialize)]
pub enum FilterKind {
    NoFilter,
    NoConst,
    NoAmbig,
    NoAmbigOrConst,
}

impl FilterKind {
    pub fn cli(&self) -> &'static str {
        match self {
            FilterKind::NoFilter => "no-filter",
            FilterKind::NoConst => "no-const",
            FilterKind::NoAmbig => "no-ambig",
            FilterKind::NoAmbigOrConst => "no-ambig-or-const",
        }
    }
    pub fn lib(&self) -> ska::cli::FilterType {
        match self {
            FilterKind::NoFilter => ska::cli::FilterType::NoFilter,
            FilterKind::NoConst => ska::cli::FilterType::NoConst,
            FilterKind::NoAmbig => ska::cli::FilterType::NoAmbig,
            FilterKind::NoAmbigOrConst => ska::cli::FilterType::NoAmbigOrConst,
        }
    }
}

#[derive(Clone, Debug)]
pub struct FilterSpec {
    /// minimum number of samples (already max(1, ceil(f*n)) or whatever the caller computed)
    pub min_count: usize,
    pub kind: FilterKind,
    pub ambig_as_missing: bool,
    pub ambig_mask: bool,
    pub no_gap_only: bool,
}

/// a stored symbol that is an IUPAC letter other than A/C/G/T (N included)
pub fn sym_is_ambig(b: u8) -> bool {
    b != b'-' && !is_acgt(b)
}

pub fn row_passes(r: &[u8], f: &FilterSpec) -> bool {
    let count = r
        .iter()
        .filter(|b| **b != b'-' && (!f.ambig_as_missing || !sym_is_ambig(**b)))
        .count();
    // a row with no countable symbol never survives (it is "empty" for this counting rule)
    if count == 0 || count < f.min_count {
        return false;
    }
    match f.kind {
        FilterKind::NoFilter => true,
        FilterKind::NoConst => {
            let mut seen: Vec<u8> = Vec::new();
            for b in r {
                if f.no_gap_only && *b == b'-' {
                    continue;
                }
                if !seen.contains(b) {
                    seen.push(*b);
                }
            }
            seen.len() >= 2
        }
        FilterKind::NoAmbig => !r.iter().any(|b| sym_is_ambig(*b)),
        FilterKind::NoAmbigOrConst => {
            let mut seen: Vec<u8> = Vec::new();
            for b in r {
                if is_acgt(*b) || (*b == b'-' && !f.no_gap_only) {
                    if !seen.contains(b) {
                        seen.push(*b);
                    }
                }
            }
            seen.len() >= 2
        }
    }
}

/// ceil(n*f) as the property states; callers only pass f where the product is exact or x.5
pub fn ceil_threshold(n: usize, f: f64) -> usize {
    (n as f64 * f).ceil() as usize
}

// ---------------------------------------------------------------------------------------
// independent 2-bit packing (A=0,C=1,T=2,G=3; upper arm in the high half)

pub fn pack_arms(arms: &[u8]) -> u128 {
    let mut x: u128 = 0;
    for b in arms {
        x = (x << 2) | rank(*b) as u128;
    }
    x
}

pub fn unpack_arms(x: u128, k: usize) -> Vec<u8> {
    let n = k - 1;
    let mut out = vec![0u8; n];
    let mut v = x;
    for i in (0..n).rev() {
        out[i] = [b'A', b'C', b'T', b'G'][(v & 3) as usize];
        v >>= 2;
    }
    out
}

/// parsed `ska nk --full-info`
#[derive(Debug, Clone)]
pub struct Nk {
    pub header: BTreeMap<String, String>,
    pub names: Vec<String>,
    pub sample_kmers: Vec<i64>,
    pub rows: BTreeMap<Vec<u8>, Vec<u8>>,
    pub duplicate_rows: usize,
}

pub fn parse_nk(text: &str) -> Result<Nk, String> {
    let mut header = BTreeMap::new();
    let mut rows = BTreeMap::new();
    let mut dup = 0;
    for l in text.lines() {
        if l.contains('\t') {
            let f: Vec<&str> = l.split('\t').collect();
            if f.len() != 3 {
                return Err(format!("bad nk row: {l}"));
            }
            let mut arms = f[0].as_bytes().to_vec();
            arms.extend_from_slice(f[1].as_bytes());
            let syms: Vec<u8> = f[2]
                .split(',')
                .map(|s| if s.len() == 1 { s.as_bytes()[0] } else { b'?' })
                .collect();
            if rows.insert(arms, syms).is_some() {
                dup += 1;
            }
        } else if let Some((a, b)) = l.split_once('=') {
            header.insert(a.to_string(), b.to_string());
        }
    }
    let names = parse_str_list(header.get("sample_names").map(|s| s.as_str()).unwrap_or("[]"));
    let sample_kmers = header
        .get("sample_kmers")
        .map(|s| {
            s.trim_matches(|c| c == '[' || c == ']')
                .split(',')
                .filter_map(|x| x.trim().parse::<i64>().ok())
                .collect()
        })
        .unwrap_or_default();
    Ok(Nk {
        header,
        names,
        sample_kmers,
        rows,
        duplicate_rows: dup,
    })
}

/// parse a Rust `{:?}` of Vec<String> with plain names (no escapes needed for our names)
pub fn parse_str_list(s: &str) -> Vec<String> {
    let mut out = Vec::new();
    let mut cur = String::new();
    let mut inq = false;
    for c in s.chars() {
        match c {
            '"' => {
                if inq {
                    out.push(cur.clone());
                    cur.clear();
                }
                inq = !inq;
            }
            _ if inq => cur.push(c),
            _ => {}
        }
    }
    out
}

impl Nk {
    pub fn table(&self) -> Table {
        Table {
            names: self.names.clone(),
            rows: self.rows.clone(),
        }
    }
}

/// compare an nk report with a model table (k, rc, names, rows, counts)
pub fn compare_nk(nk: &Nk, t: &Table, k: usize, rc: bool, k_bits: Option<u32>) -> Result<(), String> {
    let get = |key: &str| nk.header.get(key).cloned().unwrap_or_default();
    if get("k") != k.to_string() {
        return Err(format!("nk k={} expected {}", get("k"), k));
    }
    if get("rc") != rc.to_string() {
        return Err(format!("nk rc={} expected {}", get("rc"), rc));
    }
    if let Some(b) = k_bits {
        if get("k_bits") != b.to_string() {
            return Err(format!("nk k_bits={} expected {}", get("k_bits"), b));
        }
    }
    if nk.names != t.names {
        return Err(format!("nk names {:?} expected {:?}", nk.names, t.names));
    }
    if get("samples") != t.names.len().to_string() {
        return Err(format!("nk samples={} expected {}", get("samples"), t.names.len()));
    }
    if nk.duplicate_rows > 0 {
        return Err(format!("nk lists {} duplicate k-mer rows", nk.duplicate_rows));
    }
    if get("k-mers") != t.rows.len().to_string() {
        return Err(format!(
            "nk k-mers={} but the model has {} (listed rows: {})",
            get("k-mers"),
            t.rows.len(),
            nk.rows.len()
        ));
    }
    if nk.rows != t.rows {
        let mut msg = String::new();
        let mut n = 0;
        for (a, r) in &t.rows {
            match nk.rows.get(a) {
                None => {
                    n += 1;
                    if n <= 4 {
                        msg += &format!(" missing {}:{};", show_arms(a), String::from_utf8_lossy(r));
                    }
                }
                Some(r2) if r2 != r => {
                    n += 1;
                    if n <= 4 {
                        msg += &format!(
                            " {} has {} expected {};",
                            show_arms(a),
                            String::from_utf8_lossy(r2),
                            String::from_utf8_lossy(r)
                        );
                    }
                }
                _ => {}
            }
        }
        for (a, r) in &nk.rows {
            if !t.rows.contains_key(a) {
                n += 1;
                if n <= 6 {
                    msg += &format!(" extra {}:{};", show_arms(a), String::from_utf8_lossy(r));
                }
            }
        }
        return Err(format!("{n} row differences:{msg}"));
    }
    // per-sample counts
    let mut counts = vec![0i64; t.names.len()];
    for r in t.rows.values() {
        for (i, b) in r.iter().enumerate() {
            if *b != b'-' {
                counts[i] += 1;
            }
        }
    }
    if nk.sample_kmers != counts {
        return Err(format!("nk sample_kmers {:?} expected {:?}", nk.sample_kmers, counts));
    }
    Ok(())
}

pub fn show_arms(a: &[u8]) -> String {
    let h = a.len() / 2;
    format!(
        "{}_{}",
        String::from_utf8_lossy(&a[..h]),
        String::from_utf8_lossy(&a[h..])
    )
}

/// parse a FASTA alignment (names, sequences) — sequences may be wrapped
pub fn parse_fasta(text: &str) -> Vec<(String, Vec<u8>)> {
    let mut out: Vec<(String, Vec<u8>)> = Vec::new();
    for l in text.lines() {
        if let Some(n) = l.strip_prefix('>') {
            out.push((n.to_string(), Vec::new()));
        } else if let Some(last) = out.last_mut() {
            last.1.extend_from_slice(l.trim_end().as_bytes());
        } else if !l.trim().is_empty() {
            // text in front of the first record is not part of an alignment: it shows up as a record of its own
            out.push(("<text before the first record>".to_string(), l.trim_end().as_bytes().to_vec()));
        }
    }
    out
}

/// columns of an alignment as sorted multiset
pub fn aln_columns(aln: &[(String, Vec<u8>)]) -> Result<Vec<Vec<u8>>, String> {
    if aln.is_empty() {
        return Ok(vec![]);
    }
    let len = aln[0].1.len();
    if aln.iter().any(|(_, s)| s.len() != len) {
        return Err(format!(
            "sequences of different lengths: {:?}",
            aln.iter().map(|(_, s)| s.len()).collect::<Vec<_>>()
        ));
    }
    let mut cols: Vec<Vec<u8>> = (0..len)
        .map(|i| aln.iter().map(|(_, s)| s[i]).collect())
        .collect();
    cols.sort();
    Ok(cols)
}

/// normalise a column up to complementing all its symbols
pub fn norm_column(col: &[u8]) -> Vec<u8> {
    let c2: Vec<u8> = col.iter().map(|b| comp_symbol(*b)).collect();
    if c2.as_slice() < col {
        c2
    } else {
        col.to_vec()
    }
}
