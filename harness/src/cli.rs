//! Spawn the `ska` binary (built from /repo's working tree) with a watchdog.

use std::io::Read;
use std::path::Path;
use std::process::{Command, Stdio};
use std::sync::atomic::Ordering;
use std::time::{Duration, Instant};

use crate::engine::{Ctx, CLI_CALLS};

pub struct CmdOut {
    pub code: Option<i32>,
    pub stdout: Vec<u8>,
    pub stderr: String,
    pub timed_out: bool,
    pub spawn_error: Option<String>,
}

impl CmdOut {
    pub fn ok(&self) -> bool {
        self.code == Some(0)
    }
    pub fn out_str(&self) -> String {
        String::from_utf8_lossy(&self.stdout).to_string()
    }
    /// infrastructure problem (not a verdict about ska)
    pub fn infra(&self) -> Option<String> {
        if let Some(e) = &self.spawn_error {
            return Some(format!("could not spawn ska: {e}"));
        }
        if self.timed_out {
            return Some("ska exceeded the 120 s watchdog".to_string());
        }
        if self.code.is_none() {
            return Some("ska was killed by a signal".to_string());
        }
        None
    }
    pub fn err_tail(&self) -> String {
        let lines: Vec<&str> = self
            .stderr
            .lines()
            .filter(|l| {
                !l.starts_with("SKA") && !l.contains('⬛') && !l.contains('⬜') && !l.is_empty()
            })
            .collect();
        let n = lines.len();
        lines[n.saturating_sub(4)..].join(" | ")
    }
}

pub const WATCHDOG: Duration = Duration::from_secs(120);

pub fn run_ska(ctx: &Ctx, cwd: &Path, args: &[&str]) -> CmdOut {
    run_ska_env(ctx, cwd, args, &[])
}

pub fn run_ska_env(ctx: &Ctx, cwd: &Path, args: &[&str], env: &[(&str, &str)]) -> CmdOut {
    CLI_CALLS.fetch_add(1, Ordering::Relaxed);
    let mut cmd = Command::new(&ctx.ska);
    // the global --verbose flag must never change a result: add it to every fifth call of the
    // subcommands whose stdout is data or nothing (not cov/lo, whose verbose mode prints progress)
    let verbose_ok = matches!(args.first().copied(), Some("build" | "align" | "map" | "merge" | "delete" | "weed" | "distance" | "nk"));
    // (decided by the worker's case counter and the argument list only, so that a run stays a function of the seed)
    let salt: usize = args.iter().map(|a| a.len()).sum();
    if verbose_ok && (ctx.counter.get() as usize + salt) % 5 == 2 {
        cmd.arg("-v");
    }
    // Documented defaults and option spellings (cli.rs of the pinned tree, README): an option given with its
    // documented default value may as well be left out, and the short and the long form of an option
    // mean the same. A third of the eligible occurrences are rewritten that way (decided by the case
    // counter and the argument list only).
    const DEFAULTS: [(&str, &str, &str); 16] = [
        ("build", "-k", "17"), ("build", "--min-count", "5"), ("build", "--min-qual", "20"), ("build", "--qual-filter", "strict"),
        ("align", "--min-freq", "0.9"), ("align", "--filter", "no-const"),
        ("map", "-f", "aln"), ("map", "--format", "aln"),
        ("distance", "--min-freq", "0"), ("weed", "--min-freq", "0.9"), ("weed", "--filter", "no-filter"),
        ("lo", "-m", "0.1"), ("lo", "-d", "4"), ("lo", "-n", "2"), ("cov", "-k", "17"), ("align", "--threads", "1"),
    ];
    const SPELLINGS: [(&str, &str, &str); 9] = [
        ("align", "--min-freq", "-m"), ("distance", "--min-freq", "-m"), ("weed", "--min-freq", "-m"),
        ("map", "-f", "--format"), ("delete", "-s", "--skf-file"),
        ("lo", "-m", "--missing"), ("lo", "-r", "--reference"), ("lo", "-d", "--depth"), ("lo", "-n", "--indel-kmers"),
    ];
    let sub = args.first().copied().unwrap_or("");
    // a file list edited on Windows: every sixth `ska build -f <list>` reads its list with CRLF line ends
    if sub == "build" && (ctx.counter.get() as usize + salt) % 6 == 4 {
        if let Some(i) = args.iter().position(|a| *a == "-f") {
            if let Some(l) = args.get(i + 1) {
                let lp = if Path::new(l).is_absolute() { Path::new(l).to_path_buf() } else { cwd.join(l) };
                if let Ok(d) = std::fs::read(&lp) {
                    if !d.contains(&b'\r') {
                        to_crlf(&lp);
                    }
                }
            }
        }
    }
    // every eighth `ska build -f <list>` gets its list through a pipe (-f /dev/stdin), as `paste names paths | ska
    // build -f /dev/stdin` or a process substitution would hand it over
    let mut piped_list: Option<Vec<u8>> = None;
    let mut args_owned: Vec<String> = args.iter().map(|a| a.to_string()).collect();
    if sub == "build" && (ctx.counter.get() as usize + salt) % 8 == 5 {
        if let Some(i) = args.iter().position(|a| *a == "-f") {
            if let Some(l) = args.get(i + 1) {
                let lp = if Path::new(l).is_absolute() { Path::new(l).to_path_buf() } else { cwd.join(l) };
                if let Ok(d) = std::fs::read(&lp) {
                    piped_list = Some(d);
                    args_owned[i + 1] = "/dev/stdin".to_string();
                }
            }
        }
    }
    // likewise every eighth `ska weed <skf> <weed file>`: the sequences to weed arrive through a pipe
    if sub == "weed" && piped_list.is_none() && (ctx.counter.get() as usize + salt) % 8 == 3 && args.len() >= 3 && !args[2].starts_with('-') {
        let wp = if Path::new(args[2]).is_absolute() { Path::new(args[2]).to_path_buf() } else { cwd.join(args[2]) };
        if wp.is_file() {
            if let Ok(d) = std::fs::read(&wp) {
                piped_list = Some(d);
                args_owned[2] = "/dev/stdin".to_string();
            }
        }
    }
    let args: Vec<&str> = args_owned.iter().map(|a| a.as_str()).collect();
    let mut rewritten: Vec<String> = Vec::with_capacity(args.len());
    let mut i = 0;
    while i < args.len() {
        let pick = (ctx.counter.get() as usize + salt + 7 * i) % 3;
        if i + 1 < args.len() && pick == 0 && DEFAULTS.iter().any(|(s, o, v)| *s == sub && *o == args[i] && *v == args[i + 1]) {
            i += 2; // leave the option out: its documented default applies
            continue;
        }
        if pick == 1 {
            if let Some((_, _, other)) = SPELLINGS.iter().find(|(s, o, _)| *s == sub && *o == args[i]) {
                rewritten.push(other.to_string());
                i += 1;
                continue;
            }
        }
        rewritten.push(args[i].to_string());
        i += 1;
    }
    // options may stand anywhere among the arguments: in a quarter of the calls that have one, `-o <file>` is moved
    // to another place (right behind the subcommand, between two inputs, ...; never between an option and its value)
    if (ctx.counter.get() as usize + salt) % 4 == 1 {
        if let Some(i) = rewritten.iter().position(|a| a == "-o") {
            if i + 1 < rewritten.len() {
                let pair: Vec<String> = rewritten.drain(i..i + 2).collect();
                let slots: Vec<usize> = (1..=rewritten.len()).filter(|j| *j == 1 || !rewritten[*j - 1].starts_with('-')).collect();
                let at = slots[(ctx.counter.get() as usize / 4 + salt) % slots.len()];
                rewritten.splice(at..at, pair);
            }
        }
    }
    cmd.args(&rewritten)
        .current_dir(cwd)
        .stdin(if piped_list.is_some() { Stdio::piped() } else { Stdio::null() })
        .stdout(Stdio::piped())
        .stderr(Stdio::piped())
        .env("RUST_BACKTRACE", "0");
    // the environment is no input: every seventh call runs with RAYON_NUM_THREADS set (ska sizes its pool from
    // --threads), every eleventh without HOME and with another TMPDIR
    match (ctx.counter.get() as usize + salt) % 7 {
        3 => { cmd.env("RAYON_NUM_THREADS", ["1", "2", "3", "7"][(ctx.counter.get() as usize / 7 + salt) % 4]); }
        _ => { cmd.env_remove("RAYON_NUM_THREADS"); }
    }
    if (ctx.counter.get() as usize + salt) % 11 == 6 {
        cmd.env_remove("HOME");
        cmd.env("TMPDIR", cwd);
    }
    for (k, v) in env {
        cmd.env(k, v);
    }
    let mut child = match cmd.spawn() {
        Ok(c) => c,
        Err(e) => {
            return CmdOut {
                code: None,
                stdout: vec![],
                stderr: String::new(),
                timed_out: false,
                spawn_error: Some(e.to_string()),
            }
        }
    };
    if let Some(data) = piped_list {
        if let Some(mut si) = child.stdin.take() {
            std::thread::spawn(move || {
                use std::io::Write;
                let _ = si.write_all(&data);
            });
        }
    }
    let mut so = child.stdout.take().unwrap();
    let mut se = child.stderr.take().unwrap();
    let t_out = std::thread::spawn(move || {
        let mut v = Vec::new();
        let _ = so.read_to_end(&mut v);
        v
    });
    let t_err = std::thread::spawn(move || {
        let mut v = Vec::new();
        let _ = se.read_to_end(&mut v);
        v
    });
    let start = Instant::now();
    let mut sleep = Duration::from_micros(300);
    let mut timed_out = false;
    let status = loop {
        match child.try_wait() {
            Ok(Some(st)) => break Some(st),
            Ok(None) => {
                if start.elapsed() > WATCHDOG {
                    let _ = child.kill();
                    let _ = child.wait();
                    timed_out = true;
                    break None;
                }
                std::thread::sleep(sleep);
                if sleep < Duration::from_millis(4) {
                    sleep *= 2;
                }
            }
            Err(_) => break None,
        }
    };
    let stdout = t_out.join().unwrap_or_default();
    let stderr = String::from_utf8_lossy(&t_err.join().unwrap_or_default()).to_string();
    CmdOut {
        code: status.and_then(|s| s.code()),
        stdout,
        stderr,
        timed_out,
        spawn_error: None,
    }
}

/// write a FASTA file; `width` = None for one line per record
pub fn write_fasta(path: &Path, names: &[String], records: &[Vec<u8>], width: Option<usize>) {
    let mut s: Vec<u8> = Vec::new();
    for (n, r) in names.iter().zip(records) {
        s.push(b'>');
        s.extend_from_slice(n.as_bytes());
        s.push(b'\n');
        match width {
            Some(w) if w > 0 => {
                for ch in r.chunks(w) {
                    s.extend_from_slice(ch);
                    s.push(b'\n');
                }
                if r.is_empty() {
                    s.push(b'\n');
                }
            }
            _ => {
                s.extend_from_slice(r);
                s.push(b'\n');
            }
        }
    }
    std::fs::write(path, s).expect("write fasta");
}

/// leave a blank or a tab behind one sequence line of a FASTA file (line chosen by `salt`), as editors and
/// copy-paste do: white space is no sequence
pub fn add_trailing_blank(path: &Path, salt: usize) {
    let data = std::fs::read(path).expect("read");
    let lines: Vec<&[u8]> = data.split(|b| *b == b'\n').collect();
    let seq_lines: Vec<usize> = lines.iter().enumerate().filter(|(_, l)| !l.is_empty() && l[0] != b'>').map(|(i, _)| i).collect();
    if seq_lines.is_empty() {
        return;
    }
    let at = seq_lines[salt % seq_lines.len()];
    let mut out = Vec::with_capacity(data.len() + 1);
    for (i, l) in lines.iter().enumerate() {
        out.extend_from_slice(l);
        if i == at {
            out.push(if salt % 2 == 0 { b' ' } else { b'\t' });
        }
        if i + 1 < lines.len() {
            out.push(b'\n');
        }
    }
    std::fs::write(path, out).expect("write");
}

/// put an empty line behind some sequence lines of a FASTA file (every `every`-th one, never behind a header):
/// an empty line inside a record is an empty piece of wrapped sequence
pub fn add_blank_lines(path: &Path, every: usize) {
    let data = std::fs::read(path).expect("read");
    let mut out = Vec::with_capacity(data.len() + data.len() / 20);
    let mut n = 0usize;
    for l in data.split_inclusive(|b| *b == b'\n') {
        out.extend_from_slice(l);
        if !l.is_empty() && l[0] != b'>' && l.ends_with(b"\n") && l.len() > 1 {
            n += 1;
            if n % every.max(1) == 0 {
                out.push(b'\n');
            }
        }
    }
    std::fs::write(path, out).expect("write");
}

/// rewrite a text file with Windows line endings
pub fn to_crlf(path: &Path) {
    let data = std::fs::read(path).expect("read");
    let mut out = Vec::with_capacity(data.len() + data.len() / 40);
    for b in data {
        if b == b'\n' {
            out.push(b'\r');
        }
        out.push(b);
    }
    std::fs::write(path, out).expect("write");
}

/// a pre-existing, long output file: anything left of it after a command wrote its output with -o
/// shows up as extra records (outputs must replace the file, not overwrite its beginning)
pub fn plant_stale_output(path: &Path) {
    let mut s = String::with_capacity(400_000);
    for i in 0..2000 {
        s += &format!(">stale_{i}\nNNNNNNNNNNNNNNNNNNNNNNNNNNNNNNNNNNNNNNNNNNNNNNNNNNNNNNNNNNNNNNNNNNNNNNNNNNNNNNNNNNNNNNNNNNNNNNNNNNNNNNNNNNNNNNNNNNNNNNNNNNNNNNNNNNNNNNNNNNNNNNNNNNNNNNNNNNNNNNNNNNNNNNNNNNNNNNNNNNNNNNNNNNNN\nstale\t{i}\t.\tA\tC\t.\t.\t.\tGT\t1\n");
    }
    std::fs::write(path, s).expect("write stale file");
}

pub fn write_fasta_auto(path: &Path, records: &[Vec<u8>], width: Option<usize>) {
    let names: Vec<String> = (0..records.len()).map(|i| format!("r{i}")).collect();
    write_fasta(path, &names, records, width);
}

pub fn write_fastq(path: &Path, reads: &[(Vec<u8>, Vec<u8>)]) {
    let mut s: Vec<u8> = Vec::new();
    // a third of the files name their reads as SRA dumps do (@SRR000123.1, @SRR000123.2, ... with the same names in
    // the mate file), a sixth as older pipelines do (@id/1): names say nothing about what a file holds
    let style = (reads.len() + reads.first().map(|r| r.0.len()).unwrap_or(0)) % 6;
    for (i, (seq, qual)) in reads.iter().enumerate() {
        if style == 1 || style == 4 {
            s.extend_from_slice(format!("@SRR000123.{} {} length={}\n", i + 1, i + 1, seq.len()).as_bytes());
            s.extend_from_slice(seq);
            s.extend_from_slice(b"\n+\n");
            s.extend_from_slice(qual);
            s.push(b'\n');
            continue;
        }
        if style == 2 {
            s.extend_from_slice(format!("@HWI-ST{}:{}/1\n", 100 + i / 2, 7 + i).as_bytes());
            s.extend_from_slice(seq);
            s.extend_from_slice(b"\n+\n");
            s.extend_from_slice(qual);
            s.push(b'\n');
            continue;
        }
        // read names as sequencers write them: plain ids, or an id and a description whose filter flag says
        // that the read passed (N) or failed (Y) the instrument's own filter; a read in the file is a read
        match i % 4 {
            1 => s.extend_from_slice(format!("@M01:7:FC:1:1101:{}:{} {}:N:0:ACGTAC\n", 1000 + i, 2000 + i, 1 + i % 2).as_bytes()),
            3 => s.extend_from_slice(format!("@M01:7:FC:1:1101:{}:{} {}:Y:0:ACGTAC\n", 1000 + i, 2000 + i, 1 + i / 2 % 2).as_bytes()),
            _ => s.extend_from_slice(format!("@r{i}\n").as_bytes()),
        }
        s.extend_from_slice(seq);
        s.extend_from_slice(b"\n+\n");
        s.extend_from_slice(qual);
        s.push(b'\n');
    }
    std::fs::write(path, s).expect("write fastq");
}

pub fn gzip(path_in: &Path, path_out: &Path) {
    use flate2::write::GzEncoder;
    use std::io::Write;
    let data = std::fs::read(path_in).expect("read");
    let f = std::fs::File::create(path_out).expect("create gz");
    let mut e = GzEncoder::new(f, flate2::Compression::default());
    e.write_all(&data).expect("gz write");
    e.finish().expect("gz finish");
}

/// compress a file with bzip2 or xz through python3's standard library (needletail reads both; the harness has no
/// crate for them). Returns false when python3 is not available (the caller then keeps the plain file).
pub fn compress_external(path_in: &Path, path_out: &Path, format: &str) -> bool {
    let module = if format == "xz" { "lzma" } else { "bz2" };
    let code = format!("import {module},sys\nopen(sys.argv[2],'wb').write({module}.compress(open(sys.argv[1],'rb').read()))");
    Command::new("python3").arg("-c").arg(code).arg(path_in).arg(path_out).stdin(Stdio::null()).stdout(Stdio::null()).stderr(Stdio::null()).status().map(|s| s.success()).unwrap_or(false) && path_out.exists()
}

/// gzip in `members` concatenated members (a valid gzip file: `cat a.gz b.gz`, bgzip, merged lanes)
pub fn gzip_members(path_in: &Path, path_out: &Path, members: usize) {
    use flate2::write::GzEncoder;
    use std::io::Write;
    let data = std::fs::read(path_in).expect("read");
    let mut out: Vec<u8> = Vec::new();
    let m = members.max(1);
    for i in 0..m {
        let (a, b) = (data.len() * i / m, data.len() * (i + 1) / m);
        let mut e = GzEncoder::new(Vec::new(), flate2::Compression::default());
        e.write_all(&data[a..b]).expect("gz write");
        out.extend(e.finish().expect("gz finish"));
    }
    std::fs::write(path_out, out).expect("write gz");
}

pub fn p(path: &Path) -> String {
    path.to_string_lossy().to_string()
}
