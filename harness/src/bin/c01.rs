//! check binary of property C01 (see props/mod.rs for the layout)
#![allow(dead_code, unused_imports)]
use vcheck::props::{common, PropDef};
use vcheck::{cli, engine, gen, model};
#[path = "../props/c01.rs"]
mod c01;

fn main() {
    vcheck::main_for(c01::def())
}
