//! check binary of property C16 (see props/mod.rs for the layout)
#![allow(dead_code, unused_imports)]
use vcheck::props::{common, PropDef};
use vcheck::{cli, engine, gen, model};
#[path = "../props/c16.rs"]
mod c16;

fn main() {
    vcheck::main_for(c16::def())
}
