//! check binary of property C09 (see props/mod.rs for the layout)
#![allow(dead_code, unused_imports)]
use vcheck::props::{common, PropDef};
use vcheck::{cli, engine, gen, model};
#[path = "../props/c04.rs"]
mod c04;
#[path = "../props/c06.rs"]
mod c06;
#[path = "../props/c09.rs"]
mod c09;

fn main() {
    vcheck::main_for(c09::def())
}
