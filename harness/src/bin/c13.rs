//! check binary of property C13 (see props/mod.rs for the layout)
#![allow(dead_code, unused_imports)]
use vcheck::props::{common, PropDef};
use vcheck::{cli, engine, gen, model};
#[path = "../props/c13.rs"]
mod c13;

fn main() {
    vcheck::main_for(c13::def())
}
