//! check binary of property C08 (see props/mod.rs for the layout)
#![allow(dead_code, unused_imports)]
use vcheck::props::{common, PropDef};
use vcheck::{cli, engine, gen, model};
#[path = "../props/c08.rs"]
mod c08;

fn main() {
    vcheck::main_for(c08::def())
}
