//! check binary of property C19 (see props/mod.rs for the layout)
#![allow(dead_code, unused_imports)]
use vcheck::props::{common, PropDef};
use vcheck::{cli, engine, gen, model};
#[path = "../props/c19.rs"]
mod c19;

fn main() {
    vcheck::main_for(c19::def())
}
