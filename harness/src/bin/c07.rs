//! check binary of property C07 (see props/mod.rs for the layout)
#![allow(dead_code, unused_imports)]
use vcheck::props::{common, PropDef};
use vcheck::{cli, engine, gen, model};
#[path = "../props/c07.rs"]
mod c07;

fn main() {
    vcheck::main_for(c07::def())
}
