//! check binary of property C02 (see props/mod.rs for the layout)
#![allow(dead_code, unused_imports)]
use vcheck::props::{common, PropDef};
use vcheck::{cli, engine, gen, model};
#[path = "../props/c02.rs"]
mod c02;

fn main() {
    vcheck::main_for(c02::def())
}
