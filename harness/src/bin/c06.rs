//! check binary of property C06 (see props/mod.rs for the layout)
#![allow(dead_code, unused_imports)]
use vcheck::props::{common, PropDef};
use vcheck::{cli, engine, gen, model};
#[path = "../props/c06.rs"]
mod c06;

fn main() {
    vcheck::main_for(c06::def())
}
