//! check binary of property C11 (see props/mod.rs for the layout)
#![allow(dead_code, unused_imports)]
use vcheck::props::{common, PropDef};
use vcheck::{cli, engine, gen, model};
#[path = "../props/c17.rs"]
mod c17;
#[path = "../props/c11.rs"]
mod c11;

fn main() {
    vcheck::main_for(c11::def())
}
