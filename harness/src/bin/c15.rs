//! check binary of property C15 (see props/mod.rs for the layout)
#![allow(dead_code, unused_imports)]
use vcheck::props::{common, PropDef};
use vcheck::{cli, engine, gen, model};
#[path = "../props/c15.rs"]
mod c15;

fn main() {
    vcheck::main_for(c15::def())
}
