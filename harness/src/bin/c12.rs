//! check binary of property C12 (see props/mod.rs for the layout)
#![allow(dead_code, unused_imports)]
use vcheck::props::{common, PropDef};
use vcheck::{cli, engine, gen, model};
#[path = "../props/c12.rs"]
mod c12;

fn main() {
    vcheck::main_for(c12::def())
}
