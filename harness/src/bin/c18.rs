//! check binary of property C18 (see props/mod.rs for the layout)
#![allow(dead_code, unused_imports)]
use vcheck::props::{common, PropDef};
use vcheck::{cli, engine, gen, model};
#[path = "../props/c18.rs"]
mod c18;

fn main() {
    vcheck::main_for(c18::def())
}
