//! check binary of property C10 (see props/mod.rs for the layout)
#![allow(dead_code, unused_imports)]
use vcheck::props::{common, PropDef};
use vcheck::{cli, engine, gen, model};
#[path = "../props/c06.rs"]
mod c06;
#[path = "../props/c10.rs"]
mod c10;

fn main() {
    vcheck::main_for(c10::def())
}
