//! check binary of property C14 (see props/mod.rs for the layout)
#![allow(dead_code, unused_imports)]
use vcheck::props::{common, PropDef};
use vcheck::{cli, engine, gen, model};
#[path = "../props/c14.rs"]
mod c14;

fn main() {
    vcheck::main_for(c14::def())
}
