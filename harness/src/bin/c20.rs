//! check binary of property C20 (see props/mod.rs for the layout)
#![allow(dead_code, unused_imports)]
use vcheck::props::{common, PropDef};
use vcheck::{cli, engine, gen, model};
#[path = "../props/c20.rs"]
mod c20;

fn main() {
    vcheck::main_for(c20::def())
}
