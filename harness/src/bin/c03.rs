//! check binary of property C03 (see props/mod.rs for the layout)
#![allow(dead_code, unused_imports)]
use vcheck::props::{common, PropDef};
use vcheck::{cli, engine, gen, model};
#[path = "../props/c03.rs"]
mod c03;

fn main() {
    vcheck::main_for(c03::def())
}
