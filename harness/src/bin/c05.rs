//! check binary of property C05 (see props/mod.rs for the layout)
#![allow(dead_code, unused_imports)]
use vcheck::props::{common, PropDef};
use vcheck::{cli, engine, gen, model};
#[path = "../props/c04.rs"]
mod c04;
#[path = "../props/c05.rs"]
mod c05;

fn main() {
    vcheck::main_for(c05::def())
}
