//! Generators. Cases are construction scripts (serialisable, shrinkable); `materialise_*`
//! turns a script into sequences deterministically. No RNG is used outside proptest.

use proptest::collection::vec;
use proptest::prelude::*;
use serde::{Deserialize, Serialize};

use crate::model::{comp, revcomp, BASES};

/// monotone index map: i in 0..65536 -> 0..n  (n==0 -> 0)
pub fn idx(i: u16, n: usize) -> usize {
    if n == 0 {
        0
    } else {
        ((i as usize) * n) >> 16
    }
}

pub fn valid_ks() -> Vec<usize> {
    (5..=63).step_by(2).collect()
}

/// all 30 valid k, extra weight on boundary values
pub fn k_strategy() -> BoxedStrategy<usize> {
    prop_oneof![
        5 => (0usize..30).prop_map(|i| 5 + 2 * i),
        4 => prop::sample::select(vec![5usize, 7, 29, 31, 33, 35, 61, 63]),
        2 => prop::sample::select(vec![9usize, 11, 15, 17, 21]),
    ]
    .boxed()
}

/// k restricted to a list
pub fn k_from(list: &'static [usize]) -> BoxedStrategy<usize> {
    prop::sample::select(list.to_vec()).boxed()
}

pub fn small_k_strategy() -> BoxedStrategy<usize> {
    prop_oneof![
        6 => (0usize..8).prop_map(|i| 5 + 2 * i),
        3 => prop::sample::select(vec![21usize, 31, 33, 35]),
        1 => (0usize..30).prop_map(|i| 5 + 2 * i),
    ]
    .boxed()
}

#[derive(Clone, Debug, Serialize, Deserialize, PartialEq)]
pub enum SeqOp {
    /// random bases (0..4 -> ACGT)
    Rand(Vec<u8>),
    /// random bases over A/C only (forces repeated k-mers)
    Rand2(Vec<u8>),
    /// n unknown bases, lower-case if flag
    Ns(u8, bool),
    /// copy of an earlier stretch (>= k long) of this sample's text with the base at the
    /// middle of its first k-window replaced; optionally reverse-complemented
    Copy {
        src: u16,
        extra: u8,
        rc: bool,
        mid: u8,
    },
    /// a . x . rc(a): arms equal to their own reverse complement (|a| = (k-1)/2)
    Pal { arm: Vec<u8>, mid: u8 },
    /// run of A
    PolyA(u8),
    /// an island between unknown bases: an N run whose length is a small multiple of k, k+1 or k+2, then exactly
    /// k (or k+1) valid bases, then one more N (scaffold gaps of round lengths next to short contigs)
    Island { mult: u8, bases: Vec<u8> },
    /// base^h . mid . base^h: a split k-mer whose two arms are the same homopolymer (all-zero arms for A)
    SameArms { base: u8, mid: u8 },
}

#[derive(Clone, Debug, Serialize, Deserialize, PartialEq)]
pub struct Rec {
    pub ops: Vec<SeqOp>,
    /// cyclic mask: true -> lower-case
    pub lower: Vec<bool>,
    /// force the record length to k-1+sel (sel 0..=3), 2k, 2k+1 by truncation/extension
    pub force_len: Option<u8>,
    /// plant an N at len-(k+1+delta), delta in -1..=1
    pub n_from_end: Option<i8>,
}

fn b2c(b: u8) -> u8 {
    BASES[(b & 3) as usize]
}

pub fn bases_to_seq(v: &[u8]) -> Vec<u8> {
    v.iter().map(|b| b2c(*b)).collect()
}

/// Materialise one record. `earlier` = upper-case text already produced for this sample
/// (source for Copy).
pub fn materialise_rec(rec: &Rec, k: usize, earlier: &[u8]) -> Vec<u8> {
    let h = (k - 1) / 2;
    let mut out: Vec<u8> = Vec::new();
    for op in &rec.ops {
        match op {
            SeqOp::Rand(v) => out.extend(v.iter().map(|b| b2c(*b))),
            SeqOp::Rand2(v) => out.extend(v.iter().map(|b| if b & 1 == 0 { b'A' } else { b'C' })),
            SeqOp::Ns(n, lower) => {
                // 1..99: that many N; 100..255: a long gap as scaffolders write them (k, k+1, 2k+3 or a round number)
                let len = if *n < 100 { *n as usize } else { [k, k + 1, 2 * k + 3, 100, 255, 256, 1000, 1024][*n as usize % 8] };
                // (runs of 7, 14, 21, ... are written with '.', the no-call symbol of older base callers, which ska
                // reads as an unknown base just like N)
                out.extend(std::iter::repeat(if *n % 7 == 0 && *n < 100 { b'.' } else if *lower { b'n' } else { b'N' }).take(len))
            }
            SeqOp::Copy {
                src,
                extra,
                rc,
                mid,
            } => {
                let mut pool: Vec<u8> = earlier.to_vec();
                pool.push(b'N');
                pool.extend_from_slice(&out);
                if pool.len() >= k {
                    let start = idx(*src, pool.len() - k + 1);
                    let len = (k + (*extra as usize) % (k + 1)).min(pool.len() - start);
                    let mut seg: Vec<u8> = pool[start..start + len].to_vec();
                    if seg[h] != b'N' && seg[h] != b'n' {
                        seg[h] = b2c(*mid);
                    }
                    if *rc {
                        seg = revcomp(&seg);
                    }
                    out.extend_from_slice(&seg);
                } else {
                    out.push(b2c(*mid));
                }
            }
            SeqOp::Pal { arm, mid } => {
                let mut a: Vec<u8> = arm.iter().map(|b| b2c(*b)).collect();
                // arm length is exactly h (pad/truncate with the material itself)
                let mut i = 0;
                while a.len() < h {
                    let b = if a.is_empty() { b'A' } else { a[i % a.len()] };
                    a.push(b);
                    i += 1;
                }
                a.truncate(h);
                out.extend_from_slice(&a);
                out.push(b2c(*mid));
                out.extend(revcomp(&a));
            }
            // 1..69: that many A; 70..255: a homopolymer of C, G or T of 1..62 bases (two such ops in a row
            // give a junction X^m Y^n: consecutive windows with the same arms and different middle bases)
            SeqOp::SameArms { base, mid } => {
                out.extend(std::iter::repeat(b2c(*base)).take(h));
                out.push(b2c(*mid));
                out.extend(std::iter::repeat(b2c(*base)).take(h));
            }
            SeqOp::Island { mult, bases } => {
                let run = (1 + (*mult as usize) % 3) * (k + (*mult as usize / 3) % 3);
                out.extend(std::iter::repeat(b'N').take(run));
                let len = k + (*mult as usize / 9) % 2;
                out.extend((0..len).map(|i| b2c(bases[i % bases.len()].wrapping_add((i / bases.len()) as u8))));
                out.push(b'N');
            }
            SeqOp::PolyA(n) => {
                if *n < 70 {
                    out.extend(std::iter::repeat(b'A').take(*n as usize))
                } else {
                    let base = [b'C', b'G', b'T'][(*n as usize - 70) % 3];
                    out.extend(std::iter::repeat(base).take(1 + (*n as usize - 70) / 3))
                }
            }
        }
    }
    if let Some(sel) = rec.force_len {
        let target = match sel % 6 {
            0 => k - 1,
            1 => k,
            2 => k + 1,
            3 => k + 2,
            4 => 2 * k,
            _ => 2 * k + 1,
        };
        if out.is_empty() {
            out.push(b'A');
        }
        let mut i = 0;
        while out.len() < target {
            // extend with a rotated copy of the record itself (deterministic)
            let b = out[i];
            out.push(match b {
                b'A' => b'C',
                b'C' => b'G',
                b'G' => b'T',
                b'T' => b'A',
                o => o,
            });
            i += 1;
        }
        out.truncate(target);
    }
    if let Some(d) = rec.n_from_end {
        let dist = (k as i64) + 1 + (d as i64);
        let pos = out.len() as i64 - dist;
        if pos >= 0 && (pos as usize) < out.len() {
            out[pos as usize] = b'N';
        }
    }
    if !rec.lower.is_empty() {
        for (i, b) in out.iter_mut().enumerate() {
            if rec.lower[i % rec.lower.len()] {
                *b = b.to_ascii_lowercase();
            }
        }
    }
    out
}

pub fn materialise_recs(recs: &[Rec], k: usize) -> Vec<Vec<u8>> {
    let mut earlier: Vec<u8> = Vec::new();
    let mut out = Vec::new();
    for r in recs {
        let s = materialise_rec(r, k, &earlier);
        earlier.push(b'N');
        earlier.extend(s.iter().map(|b| b.to_ascii_uppercase()));
        out.push(s);
    }
    out
}

pub fn seqop_strategy(k: usize) -> BoxedStrategy<SeqOp> {
    let maxlen = k + 12;
    prop_oneof![
        6 => vec(0u8..4, 1..maxlen).prop_map(SeqOp::Rand),
        2 => vec(0u8..2, 1..maxlen).prop_map(SeqOp::Rand2),
        2 => (prop_oneof![16 => 1u8..4, 3 => 4u8..70, 1 => 100u8..=255], any::<bool>()).prop_map(|(n, l)| SeqOp::Ns(n, l)),
        4 => (any::<u16>(), 0u8..64, any::<bool>(), 0u8..4)
            .prop_map(|(src, extra, rc, mid)| SeqOp::Copy { src, extra, rc, mid }),
        1 => (vec(0u8..4, 1..6), 0u8..4).prop_map(|(arm, mid)| SeqOp::Pal { arm, mid }),
        2 => (1u8..=255).prop_map(SeqOp::PolyA),
        1 => (0u8..18, vec(0u8..4, 3..12)).prop_map(|(mult, bases)| SeqOp::Island { mult, bases }),
        1 => (0u8..4, 0u8..4).prop_map(|(base, mid)| SeqOp::SameArms { base, mid }),
    ]
    .boxed()
}

pub fn rec_strategy(k: usize) -> BoxedStrategy<Rec> {
    (
        vec(seqop_strategy(k), 1..5),
        prop_oneof![
            6 => Just(Vec::<bool>::new()),
            2 => vec(any::<bool>(), 1..9),
        ],
        prop_oneof![
            7 => Just(None),
            3 => (0u8..6).prop_map(Some),
        ],
        prop_oneof![
            8 => Just(None),
            2 => (-1i8..=1).prop_map(Some),
        ],
    )
        .prop_map(|(ops, lower, force_len, n_from_end)| Rec {
            ops,
            lower,
            force_len,
            n_from_end,
        })
        .boxed()
}

// ---------------------------------------------------------------------------------------
// Sample sets that share content (for merge / delete / weed / histories / map)

#[derive(Clone, Debug, Serialize, Deserialize, PartialEq)]
pub struct Mut {
    pub pos: u16,
    /// 0 snp, 1 insertion, 2 deletion, 3 N
    pub kind: u8,
    pub base: u8,
}

#[derive(Clone, Debug, Serialize, Deserialize, PartialEq)]
pub enum Part {
    Own(Rec),
    Derived {
        src: u16,
        muts: Vec<Mut>,
        rc: bool,
        /// substring (start fraction, length fraction); None = whole
        sub: Option<(u16, u16)>,
    },
}

#[derive(Clone, Debug, Serialize, Deserialize, PartialEq)]
pub struct SampleScript {
    pub parts: Vec<Part>,
}

pub fn apply_muts(s: &[u8], muts: &[Mut]) -> Vec<u8> {
    let mut v = s.to_vec();
    for m in muts {
        if v.is_empty() {
            break;
        }
        let p = idx(m.pos, v.len());
        match m.kind % 4 {
            0 => {
                // substitute by a *different* base where possible
                let mut b = b2c(m.base);
                if b == v[p].to_ascii_uppercase() {
                    b = comp(b);
                }
                v[p] = b;
            }
            1 => v.insert(p, b2c(m.base)),
            2 => {
                if v.len() > 1 {
                    v.remove(p);
                }
            }
            _ => v[p] = b'N',
        }
    }
    v
}

pub fn materialise_part(part: &Part, anc: &[Vec<u8>], k: usize, earlier: &[u8]) -> Vec<u8> {
    match part {
        Part::Own(r) => materialise_rec(r, k, earlier),
        Part::Derived {
            src,
            muts,
            rc,
            sub,
        } => {
            if anc.is_empty() {
                return vec![b'A'];
            }
            let a = &anc[idx(*src, anc.len())];
            let mut s: Vec<u8> = match sub {
                None => a.clone(),
                Some((st, ln)) => {
                    if a.len() <= k {
                        a.clone()
                    } else {
                        let start = idx(*st, a.len() - k + 1);
                        let maxl = a.len() - start;
                        let len = k + idx(*ln, maxl - k + 1);
                        a[start..start + len].to_vec()
                    }
                }
            };
            s = apply_muts(&s, muts);
            if *rc {
                s = revcomp(&s);
            }
            s
        }
    }
}

/// returns per sample its records
pub fn materialise_samples(anc: &[Rec], samples: &[SampleScript], k: usize) -> (Vec<Vec<u8>>, Vec<Vec<Vec<u8>>>) {
    let anc_seqs = materialise_recs(anc, k);
    let mut out = Vec::new();
    for s in samples {
        let mut recs = Vec::new();
        let mut earlier: Vec<u8> = Vec::new();
        for p in &s.parts {
            let r = materialise_part(p, &anc_seqs, k, &earlier);
            earlier.push(b'N');
            earlier.extend(r.iter().map(|b| b.to_ascii_uppercase()));
            recs.push(r);
        }
        out.push(recs);
    }
    (anc_seqs, out)
}

pub fn mut_strategy() -> BoxedStrategy<Mut> {
    (
        any::<u16>(),
        prop_oneof![6 => Just(0u8), 1 => Just(1u8), 1 => Just(2u8), 1 => Just(3u8)],
        0u8..4,
    )
        .prop_map(|(pos, kind, base)| Mut { pos, kind, base })
        .boxed()
}

pub fn part_strategy(k: usize) -> BoxedStrategy<Part> {
    prop_oneof![
        2 => rec_strategy(k).prop_map(Part::Own),
        7 => (
            any::<u16>(),
            vec(mut_strategy(), 0..4),
            any::<bool>(),
            prop_oneof![3 => Just(None), 1 => (any::<u16>(), any::<u16>()).prop_map(Some)]
        )
            .prop_map(|(src, muts, rc, sub)| Part::Derived { src, muts, rc, sub }),
    ]
    .boxed()
}

pub fn sample_strategy(k: usize) -> BoxedStrategy<SampleScript> {
    vec(part_strategy(k), 1..4)
        .prop_map(|parts| SampleScript { parts })
        .boxed()
}

/// plain long random ancestor records (for derived samples): 1..3 records of k..4k+20
pub fn ancestor_strategy(k: usize) -> BoxedStrategy<Vec<Rec>> {
    vec(
        prop_oneof![
            3 => vec(0u8..4, k..(4 * k + 20)).prop_map(|v| Rec {
                ops: vec![SeqOp::Rand(v)],
                lower: vec![],
                force_len: None,
                n_from_end: None
            }),
            1 => rec_strategy(k),
        ],
        1..4,
    )
    .boxed()
}

/// strategy for a symbol table cell alphabet
pub fn symbol_strategy(p_gap: u32, p_ambig: u32) -> BoxedStrategy<u8> {
    let pb = 100u32.saturating_sub(p_gap + p_ambig).max(1);
    prop_oneof![
        pb => prop::sample::select(vec![b'A', b'C', b'G', b'T']),
        p_gap.max(1) => Just(b'-'),
        p_ambig.max(1) => prop::sample::select(vec![b'R', b'Y', b'S', b'W', b'K', b'M', b'B', b'D', b'H', b'V', b'N']),
    ]
    .boxed()
}

// ---------------------------------------------------------------------------------------
/// A set of samples sharing content (derived from common ancestor records)
#[derive(Clone, Debug, Serialize, Deserialize, PartialEq)]
pub struct SetCase {
    pub k: usize,
    pub rc: bool,
    pub anc: Vec<Rec>,
    pub samples: Vec<SampleScript>,
}

pub fn set_strategy_k(k: usize, min_samples: usize, max_samples: usize) -> BoxedStrategy<SetCase> {
    (
        prop::bool::weighted(0.7),
        ancestor_strategy(k),
        vec(sample_strategy(k), min_samples..=max_samples),
    )
        .prop_map(move |(rc, anc, samples)| SetCase { k, rc, anc, samples })
        .boxed()
}

pub fn set_strategy(min_samples: usize, max_samples: usize) -> BoxedStrategy<SetCase> {
    k_strategy()
        .prop_flat_map(move |k| set_strategy_k(k, min_samples, max_samples))
        .boxed()
}

/// deterministic filler record that certainly contains windows
pub fn filler(k: usize, salt: usize) -> Vec<u8> {
    (0..k + 2 + salt % 3)
        .map(|i| BASES[(i * i + i / 3 + salt * 7 + (i * salt) % 5) % 4])
        .collect()
}

/// Sample names of a generated set: deliberately not in sorted order and with punctuation that is
/// legal in a name (no white space, no leading '-'): a comma, a dot, '=', '#', and names that look like
/// file names (a sample may be called `iso1.fa`; a name is never a path), a first sample called `sample` (what a
/// column title would be), a name starting with a non-ASCII letter next to the same name without it, two names that differ in letter case only, names that are numbers (one of them equal to its own 1-based position, one not).
pub fn set_sample_name(i: usize) -> String {
    const NAMES: [&str; 16] = ["sample", "recA", "3", "1", "#2", "RecA", "6925_1#7", "ΔrecA", "iso_B,rep2", "x.1", "A-b", "iso1.fa", "k=5", "reads_1.fastq.gz", "s10", "s2"];
    if i < NAMES.len() {
        NAMES[i].to_string()
    } else {
        format!("n{}_{i}", (i * 7) % 10)
    }
}

/// materialise; every sample is guaranteed >= 1 window (a filler record is appended if not)
pub fn materialise_set(c: &SetCase) -> (Vec<Vec<u8>>, Vec<(String, Vec<Vec<u8>>)>) {
    let (anc, mut out) = materialise_set_plain(c);
    // In half of the sets one sample also carries a small multi-copy family: the first window of
    // the ancestor with 2, 3 or all 4 middle bases, as separate records. Its stored symbol for that
    // split k-mer is then an ambiguity code (N for all four), a *present* symbol that every
    // operation on tables must carry along like a base. (A pure function of the case.)
    let first = anc.iter().find_map(|r| crate::model::windows(r, c.k).into_iter().next().map(|(_, w)| w));
    if let Some(w) = first {
        let sel = c.k / 2 + out.len() * 5 + anc.iter().map(|r| r.len()).sum::<usize>();
        let copies = [0usize, 4, 0, 2, 4, 0, 3, 0][sel % 8];
        if copies > 0 {
            let j = (sel / 8) % out.len();
            let h = (c.k - 1) / 2;
            let start = crate::model::BASES.iter().position(|b| *b == w[h].to_ascii_uppercase()).unwrap_or(0);
            for x in 0..copies {
                let mut r = w.clone();
                r[h] = crate::model::BASES[(start + x) % 4];
                out[j].1.push(r);
            }
        }
    }
    (anc, out)
}

/// the generated set without the multi-copy family (for checks whose domain excludes ambiguity codes)
pub fn materialise_set_plain(c: &SetCase) -> (Vec<Vec<u8>>, Vec<(String, Vec<Vec<u8>>)>) {
    let (anc, samples) = materialise_samples(&c.anc, &c.samples, c.k);
    let mut out = Vec::new();
    for (i, mut recs) in samples.into_iter().enumerate() {
        if recs.iter().all(|r| crate::model::windows(r, c.k).is_empty()) {
            recs.push(filler(c.k, i));
        }
        out.push((set_sample_name(i), recs));
    }
    (anc, out)
}

/// related genomes without repeats (random ancestors, k >= 11): SNPs, small indels, rc, substrings
pub fn clean_set_strategy(min_samples: usize, max_samples: usize) -> BoxedStrategy<SetCase> {
    prop_oneof![3 => (3usize..30).prop_map(|i| 5 + 2 * i), 2 => prop::sample::select(vec![11usize, 15, 31, 33, 35, 63])]
        .prop_flat_map(move |k| {
            let anc = vec(
                vec(0u8..4, (k + 5)..(4 * k + 30)).prop_map(|v| Rec { ops: vec![SeqOp::Rand(v)], lower: vec![], force_len: None, n_from_end: None }),
                1..3,
            );
            let m = (any::<u16>(), prop_oneof![6 => Just(0u8), 1 => Just(1u8), 1 => Just(2u8)], 0u8..4).prop_map(|(pos, kind, base)| Mut { pos, kind, base });
            let part = (any::<u16>(), vec(m, 0..4), any::<bool>(), prop_oneof![4 => Just(None), 1 => (any::<u16>(), any::<u16>()).prop_map(Some)])
                .prop_map(|(src, muts, rc, sub)| Part::Derived { src, muts, rc, sub });
            let sample = prop_oneof![5 => vec(part.clone(), 1..=1), 1 => vec(part, 2..=2)].prop_map(|parts| SampleScript { parts });
            (Just(k), prop::bool::weighted(0.7), anc, vec(sample, min_samples..=max_samples))
        })
        .prop_map(|(k, rc, anc, samples)| SetCase { k, rc, anc, samples })
        .boxed()
}

// ---------------------------------------------------------------------------------------
// Greedy construction of sequences with unique words on both strands

/// canonical key of a window: if `split`, the window without its middle base; strands merged
pub fn word_key(w: &[u8], split: bool) -> (Vec<u8>, bool) {
    let r = revcomp(w);
    let (a, b) = if split {
        let h = (w.len() - 1) / 2;
        let mut a = w[..h].to_vec();
        a.extend_from_slice(&w[h + 1..]);
        let mut b = r[..h].to_vec();
        b.extend_from_slice(&r[h + 1..]);
        (a, b)
    } else {
        (w.to_vec(), r)
    };
    let self_rc = a == b;
    (if a <= b { a } else { b }, self_rc)
}

/// Greedy extension: append `len` bases taken from `material` (cyclic), replacing a base by the
/// next one in rotation whenever the newest window of size `w` would repeat a word already in
/// `seen` (either strand) or be its own reverse complement. None if some position has no valid base.
pub fn unique_seq(
    material: &[u8],
    len: usize,
    w: usize,
    split: bool,
    seen: &mut std::collections::HashSet<Vec<u8>>,
) -> Option<Vec<u8>> {
    let mut s: Vec<u8> = Vec::with_capacity(len);
    for i in 0..len {
        let m = if material.is_empty() { 0 } else { material[i % material.len()] & 3 } as usize;
        let mut placed = false;
        for t in 0..4 {
            let b = BASES[(m + t) % 4];
            s.push(b);
            if s.len() >= w {
                let (key, self_rc) = word_key(&s[s.len() - w..], split);
                if self_rc || seen.contains(&key) {
                    s.pop();
                    continue;
                }
                seen.insert(key);
            }
            placed = true;
            break;
        }
        if !placed {
            return None;
        }
    }
    Some(s)
}

/// Do all windows of all given sequences have unique words (both strands), where the same
/// word may recur only at the same `origin`? `items`: (sequence, origin id per window start).
/// Returns false on any collision between different origins or on a self-rc word.
pub fn words_consistent(items: &[(Vec<u8>, Vec<u64>)], w: usize, split: bool) -> bool {
    let mut map: std::collections::HashMap<Vec<u8>, u64> = std::collections::HashMap::new();
    for (seq, origins) in items {
        if seq.len() < w {
            continue;
        }
        for i in 0..=(seq.len() - w) {
            let (key, self_rc) = word_key(&seq[i..i + w], split);
            if self_rc {
                return false;
            }
            match map.get(&key) {
                Some(o) if *o != origins[i] => {
                    if std::env::var("VERIF_DEBUG").is_ok() {
                        eprintln!("COLLISION word={} origins {:#x} vs {:#x} at window {i} of a sequence of length {}", String::from_utf8_lossy(&key), o, origins[i], seq.len());
                    }
                    return false;
                }
                Some(_) => {}
                None => {
                    map.insert(key, origins[i]);
                }
            }
        }
    }
    true
}
