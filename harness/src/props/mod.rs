//! Shared pieces of the property modules. Each property cNN.rs is compiled into its own binary
//! (src/bin/cNN.rs), so that a change of a low-level ska API that one module observes directly
//! does not stop the other checks from building.
use crate::engine::{Runtime, Stage, Tier};

pub mod common;

pub struct PropDef {
    pub id: &'static str,
    pub level: &'static str,
    pub assumptions: &'static [&'static str],
    pub stages: fn(Tier) -> Vec<Box<dyn Stage>>,
    /// runs after all stages (aggregate checks, known findings)
    pub post: Option<fn(&mut Runtime)>,
}
