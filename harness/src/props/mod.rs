//! One module per property.
use crate::engine::{Runtime, Stage, Tier};

pub mod common;
pub mod c01;
pub mod c02;
pub mod c03;
pub mod c04;
pub mod c05;
pub mod c06;
pub mod c07;
pub mod c08;
pub mod c09;
pub mod c10;
pub mod c11;
pub mod c12;
pub mod c13;
pub mod c14;
pub mod c15;
pub mod c16;
pub mod c17;
pub mod c18;
pub mod c19;
pub mod c20;

pub struct PropDef {
    pub id: &'static str,
    pub level: &'static str,
    pub assumptions: &'static [&'static str],
    pub stages: fn(Tier) -> Vec<Box<dyn Stage>>,
    /// runs after all stages (aggregate checks, known findings)
    pub post: Option<fn(&mut Runtime)>,
}

pub fn lookup(id: &str) -> Option<PropDef> {
    Some(match id {
        "C01" => c01::def(),
        "C02" => c02::def(),
        "C03" => c03::def(),
        "C04" => c04::def(),
        "C05" => c05::def(),
        "C06" => c06::def(),
        "C07" => c07::def(),
        "C08" => c08::def(),
        "C09" => c09::def(),
        "C10" => c10::def(),
        "C11" => c11::def(),
        "C12" => c12::def(),
        "C13" => c13::def(),
        "C14" => c14::def(),
        "C15" => c15::def(),
        "C16" => c16::def(),
        "C17" => c17::def(),
        "C18" => c18::def(),
        "C19" => c19::def(),
        "C20" => c20::def(),
        _ => return None,
    })
}
