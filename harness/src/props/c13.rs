//! C13 — weeding removes exactly the k-mers of the weed sequences and nothing else.

use std::collections::BTreeSet;

use proptest::prelude::*;
use serde::{Deserialize, Serialize};
use serde_json::json;

use super::common::*;
use super::PropDef;
use crate::cli::{self, run_ska};
use crate::engine::{gen_stage_show, key_of, pass, Ctx, Outcome, Stage, Tier};
use crate::gen::{self, Part, SetCase};
use crate::model;

#[derive(Clone, Debug, Serialize, Deserialize)]
pub struct Case {
    pub set: SetCase,
    pub weed: Vec<Part>,
    /// also put all records of this sample into the weed file
    pub whole_sample: Option<u16>,
    /// everything: all samples' records
    pub everything: bool,
    pub in_place: bool,
    /// line width of the weed FASTA (0 = unwrapped)
    #[serde(default)]
    pub wrap: u8,
}

fn case_strategy() -> BoxedStrategy<Case> {
    gen::k_strategy()
        .prop_flat_map(|k| {
            (
                gen::set_strategy_k(k, 2, 6),
                proptest::collection::vec(gen::part_strategy(k), 0..4),
                prop_oneof![4 => Just(None), 1 => any::<u16>().prop_map(Some)],
                prop::bool::weighted(0.06),
                any::<bool>(),
                prop_oneof![1 => Just(0u8), 1 => 1u8..80],
            )
        })
        .prop_map(|(set, weed, whole_sample, everything, in_place, wrap)| Case { set, weed, whole_sample, everything, in_place, wrap })
        .boxed()
}

fn weed_records(c: &Case, anc: &[Vec<u8>], samples: &[Sample]) -> Vec<Vec<u8>> {
    let k = c.set.k;
    let mut recs: Vec<Vec<u8>> = Vec::new();
    let mut earlier: Vec<u8> = Vec::new();
    for p in &c.weed {
        let r = gen::materialise_part(p, anc, k, &earlier);
        earlier.push(b'N');
        earlier.extend(r.iter().map(|b| b.to_ascii_uppercase()));
        recs.push(r);
    }
    if let Some(s) = c.whole_sample {
        recs.extend(samples[gen::idx(s, samples.len())].1.iter().cloned());
    }
    if c.everything {
        for s in samples {
            recs.extend(s.1.iter().cloned());
        }
    }
    // a third of the weed files also hold a closed replicon cut at another point than in the samples (the
    // first ancestor record rotated by half its length): a weed record is a linear sequence, whatever its
    // header says about topology
    if c.wrap % 3 == 2 {
        if let Some(a) = anc.iter().find(|a| a.len() >= 2 * k + 2) {
            let p = a.len() / 2;
            let mut r = a[p..].to_vec();
            r.extend_from_slice(&a[..p]);
            recs.push(r);
        }
    }
    if recs.iter().all(|r| model::windows(r, k).is_empty()) {
        // must contain at least one window; this filler is unrelated to the samples
        recs.push(gen::filler(k, 11));
    }
    recs
}

fn check(c: &Case, ctx: &Ctx) -> Outcome {
    let (anc, samples) = gen::materialise_set(&c.set);
    let (k, rc) = (c.set.k, c.set.rc);
    let wrecs = weed_records(c, &anc, &samples);
    let dir = ctx.case_dir();
    let r: Result<(usize, usize, bool), Outcome> = (|| {
        must_ok(&build(ctx, &dir, "x", &samples, k, rc, 1), "ska build")?;
        // headers with descriptions; several records may share their first token (e.g. copies of one element)
        // (descriptions in the style assemblers write them, topology tag included)
        let wnames: Vec<String> = (0..wrecs.len()).map(|i| if c.wrap % 2 == 1 { format!("IS{} copy{i} len={}", i / 3, wrecs[i].len()) } else if c.wrap % 3 == 2 { format!("{} length={} depth=1.00x circular=true", i + 1, wrecs[i].len()) } else if (i + k) % 4 == 2 { ["ISAba1(+)", "tig12(circular)", "*plasmid", "=chr", "rep[1]", "a,b", "x<y>", "it's", "q\\1"][(i + wrecs.len()) % 9].to_string() } else { format!("r{i}") }).collect();
        // one weed file in nine has a record without a name (a bare '>'): ska may refuse such a file, but if it
        // takes it, that record's k-mers count like all the others
        let nameless = wrecs.len() >= 2 && (k / 2 + wrecs.len() + samples.len()) % 9 == 4;
        let wnames: Vec<String> = wnames.into_iter().enumerate().map(|(i, n)| if nameless && i == 1 { String::new() } else { n }).collect();
        cli::write_fasta(&dir.join("weed.fa"), &wnames, &wrecs, if c.wrap == 0 { None } else { Some(c.wrap as usize) });
        if nameless {
            let o = run_ska(ctx, &dir, &["weed", "x.skf", "weed.fa", "--min-freq", "0", "-o", "probe.skf"]);
            if !o.ok() && o.infra().is_none() {
                if dir.join("probe.skf").exists() {
                    return Err(Outcome::Fail("weed refused a weed file with a nameless record but wrote an output file".into()));
                }
                return Ok((0, 0, false));
            }
        }
        let (_d, full) = model_table(&samples, k, rc);
        let wset: BTreeSet<Vec<u8>> = model::build_sample(&wrecs, k, rc).keys().cloned().collect();
        let orig_bytes = std::fs::read(dir.join("x.skf")).map_err(|e| Outcome::Infra(e.to_string()))?;
        let mut results = Vec::new();
        for reverse in [false, true] {
            // weed writes to exactly the name it is given: with the usual suffix, without one, or with another
            let out = [["fwd.skf", "rev.skf"], ["fwd", "rev"], ["panel_fwd.ska", "panel_rev.ska"]][(k / 2 + samples.len() + wrecs.len()) % 3][reverse as usize];
            // in-place variant works on a copy so that both directions start from the original
            let mut args: Vec<&str> = vec!["weed"];
            let target;
            let spelled;
            if c.in_place {
                target = format!("copy_{out}");
                std::fs::write(dir.join(&target), &orig_bytes).unwrap();
                args.push(&target);
                args.push("weed.fa");
                // a third of the in-place runs name the input once more as the output, spelled differently
                if (k / 2 + samples.len() + reverse as usize) % 3 == 0 {
                    spelled = format!("./{target}");
                    args.push("-o");
                    args.push(&spelled);
                }
            } else {
                target = out.to_string();
                args.push("x.skf");
                args.push("weed.fa");
                args.push("-o");
                args.push(out);
            }
            args.push("--min-freq");
            args.push("0");
            if reverse {
                args.push("--reverse");
            }
            let o = run_ska(ctx, &dir, &args);
            must_ok(&o, &format!("ska {}", args.join(" ")))?;
            let got = nk(ctx, &dir, &target)?;
            let expected = full.weed(&wset, reverse);
            model::compare_nk(&got, &expected, k, rc, Some(k_bits_for(k)))
                .map_err(|m| Outcome::Fail(format!("weed{} vs model: {m}", if reverse { " --reverse" } else { "" })))?;
            // weeding again changes nothing
            let mut args2: Vec<&str> = vec!["weed", &target, "weed.fa", "-o", "again.skf", "--min-freq", "0"];
            if reverse {
                args2.push("--reverse");
            }
            let o = run_ska(ctx, &dir, &args2);
            must_ok(&o, "second weed of the result")?;
            let again = nk(ctx, &dir, "again.skf")?;
            if again.table() != got.table() {
                return Err(Outcome::Fail(format!("weeding{} a second time changed the file: {}", if reverse { " --reverse" } else { "" }, table_diff(&got.table(), &again.table()))));
            }
            results.push(got.table());
        }
        if std::fs::read(dir.join("x.skf")).ok().as_deref() != Some(&orig_bytes[..]) {
            return Err(Outcome::Fail("weed with -o modified its input file".into()));
        }
        // model-free partition check
        let (f, r) = (&results[0], &results[1]);
        for (a, row) in &full.rows {
            match (f.rows.get(a), r.rows.get(a)) {
                (Some(x), None) | (None, Some(x)) if x == row => {}
                other => {
                    return Err(Outcome::Fail(format!(
                        "k-mer {} is not in exactly one of the two results with all its bases: {:?}",
                        model::show_arms(a),
                        (other.0.map(|v| lossy(v)), other.1.map(|v| lossy(v)))
                    )))
                }
            }
        }
        if f.rows.len() + r.rows.len() != full.rows.len() {
            return Err(Outcome::Fail("the two weed results do not partition the original".into()));
        }
        // did a reverse-complemented weed sequence match?
        let rc_match = rc && wrecs.iter().any(|w| model::windows(w, k).iter().any(|(_, win)| {
            let cn = model::canon(win, true);
            cn.is_rc && full.rows.contains_key(&cn.arms)
        }));
        Ok((f.rows.len(), r.rows.len(), rc_match))
    })();
    ctx.done(&dir);
    match r {
        Err(Outcome::Fail(m)) => Outcome::Fail(format!("k={k} rc={rc} weed={:?} in_place={} samples={}: {m}", wrecs.iter().map(|w| lossy(w)).collect::<Vec<_>>(), c.in_place, show_samples(&samples))),
        Err(o) => o,
        Ok((kept, removed, rc_match)) => {
            let mut cl = vec![];
            if kept > 0 && removed > 0 { cl.push("partial"); }
            if removed == 0 { cl.push("matches_nothing"); }
            if kept == 0 { cl.push("matches_everything"); }
            if rc_match { cl.push("rc_weed_sequence_matches"); }
            if wrecs.iter().any(|w| w.iter().any(|b| *b == b'N' || *b == b'n')) { cl.push("weed_with_N"); }
            if c.in_place { cl.push("in_place"); }
            if c.wrap > 0 { cl.push("wrapped_weed_fasta"); }
            if k >= 33 { cl.push("128bit"); }
            pass((kept > 0 && removed > 0) || rc_match, key_of(&(k, rc, &wrecs, &samples)), cl)
        }
    }
}

// ---- a weed file as long as a bacterial genome (more than 2^22 split k-mers) ----

#[derive(Clone, Debug, Serialize, Deserialize)]
pub struct LongWeedCase {
    pub seed: u64,
    pub k_sel: u8,
    pub extra: u32,
    pub rc: bool,
    pub records: u8,
}

fn long_weed_strategy() -> BoxedStrategy<LongWeedCase> {
    (any::<u64>(), 0u8..3, 0u32..200_000, prop::bool::weighted(0.7), 1u8..4)
        .prop_map(|(seed, k_sel, extra, rc, records)| LongWeedCase { seed, k_sel, extra, rc, records })
        .boxed()
}

fn check_long_weed(c: &LongWeedCase, ctx: &Ctx) -> Outcome {
    let k = [31usize, 33, 41][c.k_sel as usize % 3];
    const B: usize = 1 << 22;
    let mut x = c.seed | 1;
    let mut rnd = |n: usize| -> Vec<u8> { (0..n).map(|_| { x = crate::engine::splitmix64(x); model::BASES[(x >> 33) as usize & 3] }).collect() };
    let g = rnd(B + 50_000 + c.extra as usize);
    // two samples made of pieces of the weed genome from either side of (and across) its 2^22-th base, one of them
    // reverse-complemented, plus sequence of their own
    let (u0, u1) = (rnd(300), rnd(260));
    let s0: Vec<Vec<u8>> = vec![g[100..400].to_vec(), u0, g[B + 500..B + 900].to_vec()];
    let s1: Vec<Vec<u8>> = vec![g[B - 200..B + 200].to_vec(), model::revcomp(&g[2000..2300]), u1];
    let samples: Vec<Sample> = vec![("left_right".to_string(), s0), ("across".to_string(), s1)];
    // the part of the weed set that matters: k-mers of the regions the pieces were cut from (k >= 31: any other
    // coincidence between 4.3 million weed k-mers and these samples has probability < 1e-9)
    let wset: BTreeSet<Vec<u8>> = model::build_sample(&[g[100..400].to_vec(), g[B + 500..B + 900].to_vec(), g[B - 200..B + 200].to_vec(), g[2000..2300].to_vec()], k, c.rc).keys().cloned().collect();
    let dir = ctx.case_dir();
    let r: Result<(usize, usize), Outcome> = (|| {
        // the weed file: the genome in 1-3 records, wrapped
        let cuts: Vec<usize> = match c.records { 1 => vec![0, g.len()], 2 => vec![0, g.len() / 3, g.len()], _ => vec![0, B - 7, B + 40_000, g.len()] };
        let recs: Vec<Vec<u8>> = cuts.windows(2).map(|w| g[w[0]..w[1]].to_vec()).collect();
        let names: Vec<String> = (0..recs.len()).map(|i| format!("chr{i}")).collect();
        cli::write_fasta(&dir.join("weed.fa"), &names, &recs, Some(80));
        let cut_kmers: BTreeSet<Vec<u8>> = if recs.len() > 1 {
            // k-mers that span a cut between two records are not in the weed file
            let mut spanning = BTreeSet::new();
            for c0 in &cuts[1..cuts.len() - 1] {
                let (a, b) = (c0.saturating_sub(k - 1), (*c0 + k - 1).min(g.len()));
                let whole: BTreeSet<Vec<u8>> = model::build_sample(&[g[a..b].to_vec()], k, c.rc).keys().cloned().collect();
                let parts: BTreeSet<Vec<u8>> = model::build_sample(&[g[a..*c0].to_vec(), g[*c0..b].to_vec()], k, c.rc).keys().cloned().collect();
                spanning.extend(whole.difference(&parts).cloned());
            }
            spanning
        } else {
            BTreeSet::new()
        };
        let wset: BTreeSet<Vec<u8>> = wset.difference(&cut_kmers).cloned().collect();
        must_ok(&build(ctx, &dir, "x", &samples, k, c.rc, 1), "ska build")?;
        let (_d, full) = model_table(&samples, k, c.rc);
        let mut results = Vec::new();
        for reverse in [false, true] {
            let out = if reverse { "rev.skf" } else { "fwd.skf" };
            let mut args: Vec<&str> = vec!["weed", "x.skf", "weed.fa", "-o", out, "--min-freq", "0"];
            if reverse {
                args.push("--reverse");
            }
            must_ok(&run_ska(ctx, &dir, &args), &format!("ska {}", args.join(" ")))?;
            let got = nk(ctx, &dir, out)?;
            model::compare_nk(&got, &full.weed(&wset, reverse), k, c.rc, Some(k_bits_for(k))).map_err(|m| Outcome::Fail(format!("weed{} with a weed file of {} bases: {m}", if reverse { " --reverse" } else { "" }, g.len())))?;
            results.push(got.table());
        }
        Ok((results[0].rows.len(), results[1].rows.len()))
    })();
    ctx.done(&dir);
    match r {
        Err(Outcome::Fail(m)) => Outcome::Fail(format!("k={k} rc={} seed={} weed genome of {} bases in {} record(s): {m}", c.rc, c.seed, (1usize << 22) + 50_000 + c.extra as usize, c.records)),
        Err(o) => o,
        Ok((kept, weeded)) => pass(kept > 0 && weeded > 0, key_of(&(k, c.rc, c.seed, c.extra, c.records)), vec![if k >= 33 { "128bit" } else { "64bit" }]),
    }
}

const RULE: &str = "generated: file of 2-6 related samples; weed FASTA = mix of ancestor-derived pieces (substrings, mutated, reverse-complemented, with N), unrelated records, optionally a whole sample or all samples, written unwrapped or wrapped at a generated width; --min-freq 0; both directions run from the same original (in place on a copy, or with -o). Oracle: result == model rows whose arms are not in (reverse: are in) the weed k-mer set, all symbols and names kept; the two results partition the original (checked without the model); a second weed changes nothing. Non-trivial: >=1 row removed and >=1 kept, or a reverse-complemented weed sequence matches.";

fn stages(tier: Tier) -> Vec<Box<dyn Stage>> {
    vec![gen_stage_show("weed", RULE, tier.pick(1200, 16_000), 200, case_strategy, check, |c| {
        let (anc, s) = gen::materialise_set(&c.set);
        json!({"k": c.set.k, "two_strand": c.set.rc, "weed": weed_records(c, &anc, &s).iter().map(|x| lossy(x)).collect::<Vec<_>>(),
            "samples": s.iter().map(|(n, r)| json!({"name": n, "records": r.iter().map(|x| lossy(x)).collect::<Vec<_>>()})).collect::<Vec<_>>()})
    }),
    gen_stage_show("genome_sized_weed_file", "generated: a weed FASTA of 2^22 + 50000..250000 random bases (more than 2^22 split k-mers; 1-3 records, wrapped at 80) and two samples made of pieces of it from either side of and across its 2^22-th base (one reverse-complemented) plus sequence of their own; k in {31,33,41}, both strand modes; weed and weed --reverse == model (weed set restricted to the regions the pieces come from). Non-trivial: both results non-empty.", tier.pick(3, 24), 2, long_weed_strategy, check_long_weed, |c| json!({"seed": c.seed, "k_index": c.k_sel % 3, "weed_bases": (1usize << 22) + 50_000 + c.extra as usize, "rc": c.rc, "records": c.records}))]
}

pub fn def() -> PropDef {
    PropDef {
        id: "C13",
        level: "exploration",
        assumptions: &["--min-freq 0 (frequency filtering off), default --filter no-filter", "weed file contains at least one window (otherwise ska refuses it)"],
        stages,
        post: None,
    }
}
