//! C19 — a damaged .skf is rejected, never read as different data (fault enumeration).

use std::collections::BTreeMap;
use std::path::{Path, PathBuf};
use std::sync::atomic::{AtomicU64, Ordering};
use std::sync::Mutex;

use serde_json::json;

use super::common::*;
use super::PropDef;
use crate::cli::{self, run_ska_env};
use crate::engine::{enum_stage, key_of, splitmix64, Ctx, Runtime, Stage, StageReport, Tier};
use crate::model::{self, Table};
use ska::merge_ska_array::MergeSkaArray;

struct Rng(u64);
impl Rng {
    fn next(&mut self) -> u64 {
        self.0 = self.0.wrapping_add(0x9E37_79B9_7F4A_7C15);
        splitmix64(self.0)
    }
}

struct TestFile {
    name: &'static str,
    k: usize,
    bytes: Vec<u8>,
    sig: String,
    /// offsets of chunk headers: (offset, header length, chunk type, data length)
    chunks: Vec<(usize, usize, u8, usize)>,
}

fn make_table(k: usize, n: usize, rows: usize, incompressible: bool, rng: &mut Rng) -> Table {
    let names = sample_names(n, "smp");
    let mut t = BTreeMap::new();
    let bits = 2 * (k - 1);
    let mut i = 0u128;
    while t.len() < rows {
        i += 1;
        let x: u128 = if incompressible {
            let v = ((rng.next() as u128) << 64) | rng.next() as u128;
            if bits >= 128 { v } else { v & ((1u128 << bits) - 1) }
        } else {
            // low complexity: small consecutive integers, spread a little
            i * 4 + (i % 3)
        };
        // make sure a k>=35 file never fits 64 bits and a k<=31 file has varied keys
        let x = if k >= 35 && !incompressible { x | (1u128 << (bits - 1)) } else { x };
        let syms: Vec<u8> = (0..n)
            .map(|j| {
                if incompressible {
                    b"ACGT-RYN"[(rng.next() % 8) as usize]
                } else if (i as usize + j) % 11 == 0 {
                    b'-'
                } else {
                    b"AC"[(i as usize / 7) % 2]
                }
            })
            .collect();
        if syms.iter().all(|b| *b == b'-') {
            continue;
        }
        t.insert(model::unpack_arms(x, k), syms);
    }
    Table { names, rows: t }
}

/// signature of an array's observable content
fn signature<IntT>(a: &MergeSkaArray<IntT>) -> String
where
    IntT: for<'x> ska::ska_dict::bit_encoding::UInt<'x> + Into<u128>,
{
    let mut rows = String::new();
    for (kmer, syms) in a.iter() {
        let x: u128 = kmer.into();
        rows += &format!("{x:x}:{};", String::from_utf8_lossy(&syms));
    }
    format!("k={} rc={} names={:?} n={} ksize={}\n{}\n{:?}\n{}", a.kmer_len(), a.rc(), a.names(), a.nsamples(), a.ksize(), a, a, rows)
}

/// what the CLI's dispatch sees: Ok(None) rejected by both widths, Ok(Some(sig)) accepted
fn load_sig(path: &str) -> Option<String> {
    let r = std::panic::catch_unwind(|| {
        if let Ok(a) = MergeSkaArray::<u64>::load(path) {
            return Some(signature(&a));
        }
        if let Ok(a) = MergeSkaArray::<u128>::load(path) {
            return Some(signature(&a));
        }
        None
    });
    match r {
        Ok(x) => x,
        Err(_) => Some("PANIC while loading".to_string()),
    }
}

fn parse_chunks(b: &[u8]) -> Vec<(usize, usize, u8, usize)> {
    let mut v = Vec::new();
    let mut off = 0;
    while off + 4 <= b.len() {
        let ty = b[off];
        let len = b[off + 1] as usize | (b[off + 2] as usize) << 8 | (b[off + 3] as usize) << 16;
        // data chunks (0x00 compressed, 0x01 uncompressed) carry a 4-byte CRC first
        let hdr = if ty == 0x00 || ty == 0x01 { 8 } else { 4 };
        v.push((off, hdr.min(4 + len), ty, len));
        off += 4 + len;
    }
    v
}

fn make_files(rt: &Runtime) -> Result<Vec<TestFile>, String> {
    let dir = rt.scratch_root.join("c19-files");
    std::fs::create_dir_all(&dir).map_err(|e| e.to_string())?;
    let mut rng = Rng(rt.seed ^ 0xC19);
    let thorough = rt.tier == Tier::Thorough;
    let specs: Vec<(&'static str, usize, usize, usize, bool)> = vec![
        ("small64", 17, 3, 12, true),
        ("small128", 35, 2, 10, true),
        ("large64_uncompressed_frames", 31, 4, if thorough { 9000 } else { 7000 }, true),
        ("large128_compressed_frames", 41, 3, if thorough { 16000 } else { 12000 }, false),
        // one long sample: more than 1 MiB serialised, over 16 frames, most of them stored uncompressed
        ("huge64_over_16_frames", 31, 1, if thorough { 180_000 } else { 150_000 }, true),
    ];
    let mut out = Vec::new();
    for (name, k, n, rows, inc) in specs {
        let t = make_table(k, n, rows, inc, &mut rng);
        let p = dir.join(format!("{name}.skf"));
        if k <= 31 {
            save_table::<u64>(&t, k, true, &p, false)?;
        } else {
            save_table::<u128>(&t, k, true, &p, false)?;
        }
        let bytes = std::fs::read(&p).map_err(|e| e.to_string())?;
        let sig = load_sig(&cli::p(&p)).ok_or("the undamaged file does not load")?;
        let chunks = parse_chunks(&bytes);
        out.push(TestFile { name, k, bytes, sig, chunks });
    }
    Ok(out)
}

#[derive(Clone, Copy, Debug, PartialEq, Eq, Hash, PartialOrd, Ord)]
enum Fault {
    Truncate(usize),
    Flip(usize),
}

fn apply(bytes: &[u8], f: Fault) -> Vec<u8> {
    match f {
        Fault::Truncate(n) => bytes[..n].to_vec(),
        Fault::Flip(bit) => {
            let mut v = bytes.to_vec();
            v[bit / 8] ^= 1 << (bit % 8);
            v
        }
    }
}

fn faults_for(f: &TestFile, tier: Tier, seed: u64) -> (Vec<Fault>, bool) {
    let len = f.bytes.len();
    let small = len < 16 * 1024;
    let huge = len > 1 << 20;
    let mut v: Vec<Fault> = Vec::new();
    let mut exhaustive = true;
    if small || (tier == Tier::Thorough && !huge) {
        v.extend((0..len).map(Fault::Truncate));
        v.extend((0..len * 8).map(Fault::Flip));
    } else {
        exhaustive = false;
        let mut set = std::collections::BTreeSet::new();
        for (off, _h, _t, dl) in &f.chunks {
            for d in 0..=16usize {
                for base in [*off, off + 4 + dl] {
                    if base + d < len {
                        set.insert(Fault::Truncate(base + d));
                    }
                    if base >= d {
                        set.insert(Fault::Truncate(base - d));
                    }
                }
            }
        }
        for n in (0..len).step_by(if huge { 9973 } else { 97 }) {
            set.insert(Fault::Truncate(n));
        }
        // every bit of the stream identifier and of every chunk header (type, length, CRC)
        for (off, h, _t, _dl) in &f.chunks {
            for b in (*off * 8)..((off + h) * 8) {
                set.insert(Fault::Flip(b));
            }
        }
        for b in 0..(10 * 8).min(len * 8) {
            set.insert(Fault::Flip(b));
        }
        // seeded data bits
        let mut rng = Rng(seed ^ key_of(&f.name));
        for _ in 0..(if !huge { 20_000 } else if tier == Tier::Thorough { 120_000 } else { 8_000 }) {
            set.insert(Fault::Flip((rng.next() % (len as u64 * 8)) as usize));
        }
        set.remove(&Fault::Truncate(len));
        v.extend(set);
    }
    (v, exhaustive)
}

fn enumerate(rt: &Runtime, rep: &mut StageReport) -> Vec<(serde_json::Value, String)> {
    let files = match make_files(rt) {
        Ok(f) => f,
        Err(e) => return vec![(json!({"setup": e}), "could not create the valid .skf files".into())],
    };
    let mut viol = Vec::new();
    let mut all_exhaustive = true;
    for (fi, f) in files.iter().enumerate() {
        let decoy: &[u8] = &files[(fi + 1) % files.len()].bytes;
        let decoy = if decoy.len() > 200_000 { &files[0].bytes[..] } else { decoy };
        let (faults, exhaustive) = faults_for(f, rt.tier, rt.seed);
        all_exhaustive &= exhaustive;
        let accepted_identical = AtomicU64::new(0);
        let rejected = AtomicU64::new(0);
        let bad: Mutex<Vec<(Fault, String)>> = Mutex::new(Vec::new());
        let nthreads = 16;
        std::thread::scope(|s| {
            for w in 0..nthreads {
                let faults = &faults;
                let (accepted_identical, rejected, bad) = (&accepted_identical, &rejected, &bad);
                let dir = rt.scratch_root.join(format!("c19-w{w}"));
                s.spawn(move || {
                    let _ = std::fs::create_dir_all(&dir);
                    let p = dir.join("d.skf");
                    let ps = cli::p(&p);
                    // files an editor, a backup tool or an interrupted rewrite may leave next to the damaged file,
                    // each holding another valid table: the file that was named is the input
                    for sib in ["d.skf.bak", "d.skf~", "d.skf.tmp", "d.bak", "d.skf.orig"] {
                        let _ = std::fs::write(dir.join(sib), decoy);
                    }
                    for (i, fault) in faults.iter().enumerate() {
                        if i % nthreads != w {
                            continue;
                        }
                        let data = apply(&f.bytes, *fault);
                        if std::fs::write(&p, &data).is_err() {
                            continue;
                        }
                        match load_sig(&ps) {
                            None => {
                                rejected.fetch_add(1, Ordering::Relaxed);
                            }
                            Some(sig) if sig == f.sig => {
                                accepted_identical.fetch_add(1, Ordering::Relaxed);
                            }
                            Some(sig) => {
                                let mut b = bad.lock().unwrap();
                                if b.len() < 4 {
                                    b.push((*fault, crate::engine::truncate(&sig, 300)));
                                }
                            }
                        }
                    }
                });
            }
        });
        let n = faults.len() as u64;
        rep.evaluations += n;
        let (ntr, nfl) = (faults.iter().filter(|x| matches!(x, Fault::Truncate(_))).count(), faults.iter().filter(|x| matches!(x, Fault::Flip(_))).count());
        rep.class(&format!("{}:truncations", f.name), ntr as u64);
        rep.class(&format!("{}:bit_flips", f.name), nfl as u64);
        rep.class(&format!("{}:rejected", f.name), rejected.load(Ordering::Relaxed));
        rep.class(&format!("{}:accepted_with_identical_content", f.name), accepted_identical.load(Ordering::Relaxed));
        rep.extra.insert(format!("{}_bytes", f.name), json!(f.bytes.len()));
        rep.extra.insert(format!("{}_frames", f.name), json!(f.chunks.iter().map(|c| format!("type {:#x} len {}", c.2, c.3)).collect::<Vec<_>>()));
        rep.extra.insert(format!("{}_exhaustive", f.name), json!(exhaustive));
        for fault in faults.iter().take(200_000) {
            rep.nontrivial_keys.insert(key_of(&(f.name, format!("{fault:?}"))));
        }
        for (fault, sig) in bad.into_inner().unwrap() {
            viol.push((json!({"file": f.name, "k": f.k, "fault": format!("{fault:?}"), "file_bytes": f.bytes.len()}), format!("{}: damaged by {fault:?} but accepted with different content: {sig}", f.name)));
        }
    }
    rep.exhaustive = Some(all_exhaustive);
    rep.samples.push(json!({"file": "small64", "fault": "Truncate(57)", "expected": "rejected by both widths"}));
    rep.samples.push(json!({"file": "large128_compressed_frames", "fault": "Flip(bit 81234)", "expected": "rejected, or accepted with identical content (snappy copy-offset redundancy)"}));
    viol
}

/// CLI sample: rejected damaged files must make every subcommand fail, untouched, without output
fn cli_sample(rt: &Runtime, rep: &mut StageReport) -> Vec<(serde_json::Value, String)> {
    let files = match make_files(rt) {
        Ok(f) => f,
        Err(e) => return vec![(json!({"setup": e}), "could not create the valid .skf files".into())],
    };
    let ctx = Ctx { scratch: rt.scratch_root.join("c19-cli"), ska: rt.ska.clone(), tier: rt.tier, replay: false, counter: std::cell::Cell::new(0) };
    let mut viol = Vec::new();
    let mut rng = Rng(rt.seed ^ 0xC11);
    let per_file = if rt.tier == Tier::Thorough { 40 } else { 10 };
    for (fi, f) in files.iter().enumerate() {
        let len = f.bytes.len();
        let mut done = 0;
        let mut attempts = 0;
        // a different valid table, stored as the intact sibling "<name>.skf" of suffix-less damaged files
        let other = &files[(fi + 1) % files.len()];
        while done < per_file && attempts < per_file * 20 {
            attempts += 1;
            // the shortest prefixes first (an interrupted save of a small file leaves 0 bytes), then random faults
            let fault = match attempts {
                1 => Fault::Truncate(0),
                2 => Fault::Truncate(1),
                3 => Fault::Truncate(len - 1),
                // cut exactly behind a frame (what is left is a whole number of valid frames)
                5 | 7 | 9 if f.chunks.len() >= 3 => { let (off, _h, _t, dl) = f.chunks[1 + (attempts / 2) % (f.chunks.len() - 2)]; Fault::Truncate(off + 4 + dl) }
                _ => if attempts % 2 == 0 { Fault::Truncate((rng.next() % len as u64) as usize) } else { Fault::Flip((rng.next() % (len as u64 * 8)) as usize) },
            };
            let dir = ctx.case_dir();
            let data = apply(&f.bytes, fault);
            // every other damaged file carries no .skf suffix and has an intact sibling "<name>.skf"
            // (the layout `ska weed set.skf w.fa -o set` leaves behind): it must still be rejected
            let bare = attempts % 4 < 2;
            let dname = if bare { "d" } else { "d.skf" };
            if bare {
                std::fs::write(dir.join("d.skf"), &other.bytes).unwrap();
            } else if other.bytes.len() < 200_000 {
                for sib in ["d.skf.bak", "d.skf~", "d.skf.tmp"] {
                    std::fs::write(dir.join(sib), &other.bytes).unwrap();
                }
            }
            let p = dir.join(dname);
            std::fs::write(&p, &data).unwrap();
            match load_sig(&cli::p(&p)) {
                Some(sig) if sig == f.sig => {
                    ctx.done(&dir);
                    continue; // accepted-identical class: the CLI legitimately succeeds
                }
                Some(sig) => {
                    if viol.len() < 4 {
                        viol.push((json!({"file": f.name, "fault": format!("{fault:?}"), "stored_as": dname}), format!("{} damaged by {fault:?} and stored as {dname:?}: accepted with different content: {}", f.name, crate::engine::truncate(&sig, 200))));
                    }
                    ctx.done(&dir);
                    continue;
                }
                None => {}
            }
            std::fs::write(dir.join("good.skf"), &f.bytes).unwrap();
            std::fs::write(dir.join("good2.skf"), &f.bytes).unwrap();
            cli::write_fasta_auto(&dir.join("ref.fa"), &[crate::gen::filler(63, 1)], None);
            // every third damaged file is read by the multi-threaded invocations
            let th: &[&str] = if attempts % 3 == 0 { &["--threads", "2"] } else if attempts % 3 == 1 { &["--threads", "4"] } else { &[] };
            let mut cmds: Vec<Vec<&str>> = vec![
                vec!["nk", "--full-info", dname],
                vec!["align", dname, "-o", "out_aln"],
                vec!["map", "ref.fa", dname, "-o", "out_map"],
                vec!["distance", dname, "-o", "out_dist"],
                vec!["merge", dname, "good.skf", "-o", "out_m1"],
                vec!["merge", "good.skf", dname, "-o", "out_m2"],
                vec!["merge", dname, "-o", "out_m0"],
                // one damaged file among three inputs, in the middle or at the end
                if attempts % 2 == 0 { vec!["merge", "good.skf", dname, "good2.skf", "-o", "out_m3"] } else { vec!["merge", "good.skf", "good2.skf", dname, "-o", "out_m3"] },
                vec!["delete", "-s", dname, "-o", "out_del", "smp0"],
                vec!["weed", dname, "ref.fa", "-o", "out_weed.skf"],
                vec!["lo", dname, "out_lo"],
            ];
            for c in cmds.iter_mut() {
                if matches!(c[0], "align" | "map" | "distance" | "lo") {
                    c.extend_from_slice(th);
                }
            }
            for cmd in cmds {
                let o = run_ska_env(&ctx, &dir, &cmd, &[]);
                rep.evaluations += 1;
                if o.infra().is_some() {
                    continue;
                }
                let mut problem = None;
                if o.ok() {
                    problem = Some("exit status 0".to_string());
                } else if std::fs::read(&p).ok().as_deref() != Some(&data[..]) {
                    problem = Some("the damaged input file was modified".to_string());
                } else if let Some(x) = ["out_aln", "out_map", "out_dist", "out_m0.skf", "out_m1.skf", "out_m2.skf", "out_m3.skf", "out_del.skf", "out_weed.skf", "out_lo_snps.fas", "out_lo_indels.vcf"].iter().find(|x| {
                    let q = dir.join(x);
                    q.exists() && std::fs::metadata(&q).map(|m| m.len() > 0).unwrap_or(false)
                }) {
                    problem = Some(format!("a non-empty output file {x} was written"));
                }
                if let Some(pr) = problem {
                    if viol.len() < 4 {
                        viol.push((json!({"file": f.name, "fault": format!("{fault:?}"), "cmd": cmd}), format!("ska {} on {} damaged by {fault:?}: {pr}", cmd.join(" "), f.name)));
                    }
                }
                for x in ["out_aln", "out_map", "out_dist", "out_m0.skf", "out_m1.skf", "out_m2.skf", "out_m3.skf"] {
                    let _ = std::fs::remove_file(dir.join(x));
                }
            }
            rep.nontrivial_keys.insert(key_of(&(f.name, format!("{fault:?}"))));
            rep.class(&format!("{}:damaged_files_through_11_subcommands", f.name), 1);
            done += 1;
            ctx.done(&dir);
        }
    }
    rep.samples.push(json!({"cmd": "ska merge good.skf d.skf -o out_m2", "expected": "non-zero exit, d.skf unchanged, no out_m2.skf"}));
    viol
}

fn stages(_tier: Tier) -> Vec<Box<dyn Stage>> {
    vec![
        enum_stage(
            "load_faults",
            "fault enumeration on four valid files written through the public API (64-bit k=17 and 128-bit k=35 single-frame files; a 64-bit multi-frame file of incompressible k-mers [uncompressed snappy frames]; a 128-bit multi-frame file of low-complexity k-mers [compressed frames]). Small files: every proper prefix and every single-bit flip. Large files, quick: every prefix length within 16 bytes of a frame boundary, every 97th length, all bits of the stream identifier and of every frame header, 20000 seeded data bits; thorough: every prefix and every bit. Oracle: the CLI's dispatch (load as u64, then as u128) rejects the file, or the accepted object's k, strand, names, rows and nk text equal the original's. Distinct = (file, fault).",
            enumerate,
        ),
        enum_stage(
            "cli",
            "sample of damaged files that the loader rejects, each (half of them named without the .skf suffix next to an intact <name>.skf that holds a different table) through nk, align, map, distance, merge (as first and as second input, and as one of three inputs), delete, weed, lo (align/map/distance/lo with --threads 2 or 4 for two thirds of the files): non-zero exit, damaged input byte-identical afterwards, no non-empty output file",
            cli_sample,
        ),
    ]
}

pub fn def() -> PropDef {
    PropDef {
        id: "C19",
        level: "fault_enumeration",
        assumptions: &[
            "fault model = the property's: proper prefixes and single-bit flips of valid files (not arbitrary multi-byte corruption)",
            "a flipped bit inside a snappy-compressed frame may decode to identical bytes; 'rejected or identical content' is the oracle",
            "exhaustive over the four generated files only in the thorough tier (small files: always)",
        ],
        stages,
        post: None,
    }
}
