//! C10 — results depend only on the logical content of an .skf, not on its history.

use std::collections::BTreeSet;

use proptest::prelude::*;
use serde::{Deserialize, Serialize};
use serde_json::json;

use super::c06::{self, Flags};
use super::common::*;
use super::PropDef;
use crate::cli::{self, run_ska};
use crate::engine::{gen_stage_show, key_of, pass, Ctx, Outcome, Stage, Tier};
use crate::gen::{self, Part, SampleScript, SetCase};
use crate::model::{self, FilterKind, FilterSpec, Table};

#[derive(Clone, Debug, Serialize, Deserialize)]
pub enum Op {
    Merge { extra: Vec<SampleScript>, first: bool },
    Delete { mask: Vec<bool>, names_file: bool },
    Weed { parts: Vec<Part>, reverse: bool },
    Filter { flags: Flags },
}

#[derive(Clone, Debug, Serialize, Deserialize)]
pub enum Final {
    Align(Flags),
    Distance { freq: Freq, allow_ambiguous: bool },
    Delete { sel: u16 },
    Map { ambig_mask: bool, repeat_mask: bool, vcf: bool },
    WeedFilter(Flags),
    Nk,
}

#[derive(Clone, Debug, Serialize, Deserialize)]
pub struct Case {
    pub set: SetCase,
    pub ops: Vec<Op>,
    pub finals: Vec<Final>,
    /// every sample is present twice under two names (then every k-mer is in >= 2 samples and
    /// rows only disappear when the second twin is deleted)
    #[serde(default)]
    pub twins: bool,
}

fn op_strategy(k: usize) -> BoxedStrategy<Op> {
    prop_oneof![
        2 => (proptest::collection::vec(gen::sample_strategy(k), 1..3), any::<bool>()).prop_map(|(extra, first)| Op::Merge { extra, first }),
        3 => (prop_oneof![1 => proptest::collection::vec(any::<bool>(), 1..6), 2 => proptest::collection::vec(prop::bool::weighted(0.2), 3..8)], any::<bool>()).prop_map(|(mask, names_file)| Op::Delete { mask, names_file }),
        2 => (proptest::collection::vec(gen::part_strategy(k), 1..3), prop::bool::weighted(0.15)).prop_map(|(parts, reverse)| Op::Weed { parts, reverse }),
        4 => gentle_flags().prop_map(|flags| Op::Filter { flags }),
    ]
    .boxed()
}

/// filter flags for steps inside a history: low thresholds and mild site filters are
/// favoured so that the table usually survives; every combination remains possible
fn gentle_flags() -> BoxedStrategy<Flags> {
    (
        prop_oneof![5 => Just(FilterKind::NoFilter), 2 => Just(FilterKind::NoConst), 1 => Just(FilterKind::NoAmbig), 1 => Just(FilterKind::NoAmbigOrConst)],
        prop::bool::weighted(0.6),
        prop::bool::weighted(0.25),
        prop::bool::weighted(0.3),
        prop_oneof![3 => Just(Freq::Zero), 3 => (0u16..20000).prop_map(Freq::Half), 2 => (1u8..4).prop_map(Freq::Dyadic), 1 => Just(Freq::One), 1 => any::<u16>().prop_map(Freq::Half)],
    )
        .prop_map(|(kind, ambig_as_missing, ambig_mask, no_gap_only, freq)| Flags { kind, ambig_as_missing, ambig_mask, no_gap_only, freq })
        .boxed()
}

fn final_strategy() -> BoxedStrategy<Final> {
    prop_oneof![
        5 => c06::flags_strategy().prop_map(Final::Align),
        2 => (freq_strategy(), any::<bool>()).prop_map(|(freq, allow_ambiguous)| Final::Distance { freq, allow_ambiguous }),
        1 => any::<u16>().prop_map(|sel| Final::Delete { sel }),
        2 => (any::<bool>(), any::<bool>(), prop::bool::weighted(0.3)).prop_map(|(ambig_mask, repeat_mask, vcf)| Final::Map { ambig_mask, repeat_mask, vcf }),
        2 => c06::flags_strategy().prop_map(Final::WeedFilter),
        1 => Just(Final::Nk),
    ]
    .boxed()
}

fn case_strategy() -> BoxedStrategy<Case> {
    gen::small_k_strategy()
        .prop_flat_map(|k| {
            (
                gen::set_strategy_k(k, 2, 6),
                proptest::collection::vec(op_strategy(k), 1..8),
                proptest::collection::vec(final_strategy(), 3..=3),
                prop::bool::weighted(0.3),
            )
        })
        .prop_map(|(set, ops, finals, twins)| Case { set, ops, finals, twins })
        .boxed()
}


fn check(c: &Case, ctx: &Ctx) -> Outcome {
    let (anc, mut samples) = gen::materialise_set(&c.set);
    if c.twins {
        let copies: Vec<Sample> = samples.iter().map(|(n, r)| (format!("{n}t"), r.clone())).collect();
        samples.extend(copies);
    }
    let (k, rc) = (c.set.k, c.set.rc);
    let dir = ctx.case_dir();
    let mut trace: Vec<String> = Vec::new();
    let mut kinds: Vec<&'static str> = Vec::new();
    let r: Result<(bool, usize), Outcome> = (|| {
        must_ok(&build(ctx, &dir, "cur", &samples, k, rc, 1), "ska build")?;
        let (_d, mut t) = model_table(&samples, k, rc);
        trace.push(format!("build {}", show_samples(&samples)));
        let mut interesting = false;
        let mut n_ops = 0;
        for (oi, op) in c.ops.iter().enumerate() {
            // an emptied table still carries its samples: only merges continue from it
            if t.rows.is_empty() && !matches!(op, Op::Merge { .. }) {
                continue;
            }
            if t.rows.is_empty() {
                kinds.push("merge_into_empty_table");
            }
            let n = t.nsamples();
            match op {
                Op::Merge { extra, first } => {
                    let (_a, mut news) = gen::materialise_samples(&c.set.anc, extra, k);
                    let news: Vec<Sample> = news
                        .drain(..)
                        .enumerate()
                        .map(|(i, mut recs)| {
                            if recs.iter().all(|r| model::windows(r, k).is_empty()) {
                                recs.push(gen::filler(k, oi * 3 + i));
                            }
                            (format!("m{oi}x{i}"), recs)
                        })
                        .collect();
                    must_ok(&build(ctx, &dir, "new", &news, k, rc, 1), "ska build (new samples)")?;
                    let (_d, tn) = model_table(&news, k, rc);
                    // output prefix with a dot of its own in every other merge
                    let prefix = if oi % 2 == 0 { "tmp.1" } else { "tmp" };
                    let args: Vec<&str> = if *first { vec!["merge", "new.skf", "cur.skf", "-o", prefix] } else { vec!["merge", "cur.skf", "new.skf", "-o", prefix] };
                    trace.push(format!("{} new={}", args.join(" "), show_samples(&news)));
                    must_ok(&run_ska(ctx, &dir, &args), "ska merge")?;
                    std::fs::rename(dir.join(format!("{prefix}.skf")), dir.join("cur.skf")).map_err(|e| Outcome::Fail(format!("merge -o {prefix} did not write {prefix}.skf: {e}")))?;
                    t = if *first { tn.merge(&t) } else { t.merge(&tn) };
                    kinds.push("merge");
                    interesting = true;
                }
                Op::Delete { mask, names_file } => {
                    if n < 2 {
                        continue;
                    }
                    let mut del: Vec<usize> = (0..n).filter(|i| mask[i % mask.len()]).collect();
                    if del.is_empty() {
                        del.push(n - 1);
                    }
                    if del.len() == n {
                        del.remove(0);
                    }
                    let names: Vec<String> = del.iter().map(|i| t.names[*i].clone()).collect();
                    let mut args: Vec<String> = vec!["delete".into(), "-s".into(), "cur.skf".into()];
                    if *names_file {
                        std::fs::write(dir.join("names.txt"), super::common::names_file_text(&names, oi + n)).unwrap();
                        args.push("-f".into());
                        args.push("names.txt".into());
                    } else {
                        args.extend(names.iter().cloned());
                    }
                    trace.push(args.join(" "));
                    let argv: Vec<&str> = args.iter().map(|s| s.as_str()).collect();
                    must_ok(&run_ska(ctx, &dir, &argv), &format!("ska {}", args.join(" ")))?;
                    t = t.delete(&names);
                    kinds.push("delete");
                    interesting = true;
                }
                Op::Weed { parts, reverse } => {
                    let mut recs: Vec<Vec<u8>> = Vec::new();
                    for p in parts {
                        recs.push(gen::materialise_part(p, &anc, k, &[]));
                    }
                    if recs.iter().all(|r| model::windows(r, k).is_empty()) {
                        recs.push(gen::filler(k, oi));
                    }
                    cli::write_fasta_auto(&dir.join("weed.fa"), &recs, None);
                    let wset: BTreeSet<Vec<u8>> = model::build_sample(&recs, k, rc).keys().cloned().collect();
                    let mut args = vec!["weed", "cur.skf", "weed.fa", "--min-freq", "0"];
                    if *reverse {
                        args.push("--reverse");
                    }
                    trace.push(format!("{} weed.fa={:?}", args.join(" "), recs.iter().map(|r| lossy(r)).collect::<Vec<_>>()));
                    must_ok(&run_ska(ctx, &dir, &args), "ska weed")?;
                    t = t.weed(&wset, *reverse);
                    kinds.push(if *reverse { "reverse_weed" } else { "weed" });
                }
                Op::Filter { flags } => {
                    let (g, sp) = c06::weed_filter_spec(flags, n);
                    let mut args: Vec<String> = vec!["weed".into(), "cur.skf".into()];
                    args.extend(c06::weed_filter_args(&g, n));
                    trace.push(args.join(" "));
                    let argv: Vec<&str> = args.iter().map(|s| s.as_str()).collect();
                    must_ok(&run_ska(ctx, &dir, &argv), &format!("ska {}", args.join(" ")))?;
                    if let Some(sp) = sp {
                        t = t.filter(&sp);
                    }
                    kinds.push(if g.ambig_as_missing { "filter_ambig_as_missing" } else if g.ambig_mask { "filter_mask" } else { "filter" });
                    if g.ambig_as_missing {
                        interesting = true;
                    }
                }
            }
            n_ops += 1;
            let got = nk(ctx, &dir, "cur.skf")?;
            model::compare_nk(&got, &t, k, rc, Some(k_bits_for(k))).map_err(|m| Outcome::Fail(format!("after step {} the file differs from the table model: {m}", trace.len() - 1)))?;
        }
        if t.rows.is_empty() || t.nsamples() == 0 {
            kinds.push("ended_empty");
            return Ok((false, n_ops));
        }
        // a fresh file with the same logical content
        let res = if k <= 31 { save_table::<u64>(&t, k, rc, &dir.join("fresh.skf"), false) } else { save_table::<u128>(&t, k, rc, &dir.join("fresh.skf"), false) };
        res.map_err(Outcome::Infra)?;
        let n = t.nsamples();
        // reference for map: ancestor records, upper-cased so that the comparison is about the skf only
        cli::write_fasta_auto(&dir.join("ref.fa"), &anc, None);
        for (fi, fin) in c.finals.iter().enumerate() {
            let mut outs: Vec<(bool, Vec<u8>)> = Vec::new();
            let mut desc = String::new();
            for file in ["cur.skf", "fresh.skf"] {
                let (ok, out): (bool, Vec<u8>) = match fin {
                    Final::Align(fl) => {
                        let mut args: Vec<String> = vec!["align".into()];
                        args.extend(c06::align_args(fl, n));
                        args.push(file.into());
                        // every other final alignment is written with -o over an existing, longer file
                        // (what a re-run after the table shrank does): only the new content may be in it
                        let to_file = (fi + n) % 2 == 0;
                        if to_file {
                            cli::plant_stale_output(&dir.join("final.aln"));
                            args.push("-o".into());
                            args.push("final.aln".into());
                        }
                        desc = args.join(" ");
                        let argv: Vec<&str> = args.iter().map(|s| s.as_str()).collect();
                        let o = run_ska(ctx, &dir, &argv);
                        if let Some(m) = o.infra() {
                            return Err(Outcome::Infra(m));
                        }
                        must_ok(&o, &format!("ska {desc}"))?;
                        let text = if to_file { std::fs::read_to_string(dir.join("final.aln")).map_err(|e| Outcome::Fail(format!("ska {desc} did not write final.aln: {e}")))? } else { o.out_str() };
                        let aln = model::parse_fasta(&text);
                        c06::compare_align(&aln, &t, &c06::spec(fl, n)).map_err(|m| Outcome::Fail(format!("ska {desc} after the history: {m}")))?;
                        let cols = model::aln_columns(&aln).map_err(Outcome::Fail)?;
                        (true, cols.concat())
                    }
                    Final::Distance { freq, allow_ambiguous } => {
                        let fa = freq.arg(n);
                        let mut args = vec!["distance", file, "--min-freq", &fa];
                        if *allow_ambiguous {
                            args.push("--allow-ambiguous");
                        }
                        desc = args.join(" ");
                        let o = run_ska(ctx, &dir, &args);
                        if let Some(m) = o.infra() {
                            return Err(Outcome::Infra(m));
                        }
                        (o.ok(), o.stdout)
                    }
                    Final::Delete { sel } => {
                        if n < 2 {
                            (true, vec![])
                        } else {
                            let name = t.names[gen::idx(*sel, n)].clone();
                            let args = vec!["delete", "-s", file, "-o", "del_out", &name];
                            desc = args.join(" ");
                            let o = run_ska(ctx, &dir, &args);
                            must_ok(&o, &format!("ska {desc}"))?;
                            let got = nk(ctx, &dir, "del_out.skf")?;
                            let exp = t.delete(&[name.clone()]);
                            model::compare_nk(&got, &exp, k, rc, Some(k_bits_for(k))).map_err(|m| Outcome::Fail(format!("ska {desc} after the history: {m}")))?;
                            let _ = std::fs::remove_file(dir.join("del_out.skf"));
                            (true, vec![])
                        }
                    }
                    Final::Map { ambig_mask, repeat_mask, vcf } => {
                        let mut args = vec!["map", "ref.fa", file];
                        if *ambig_mask {
                            args.push("--ambig-mask");
                        }
                        if *repeat_mask {
                            args.push("--repeat-mask");
                        }
                        if *vcf {
                            args.push("-f");
                            args.push("vcf");
                        }
                        desc = args.join(" ");
                        let o = run_ska(ctx, &dir, &args);
                        if let Some(m) = o.infra() {
                            return Err(Outcome::Infra(m));
                        }
                        (o.ok(), o.stdout)
                    }
                    Final::WeedFilter(fl) => {
                        let (g, sp) = c06::weed_filter_spec(fl, n);
                        let mut args: Vec<String> = vec!["weed".into(), file.into(), "-o".into(), "wf_out.skf".into()];
                        args.extend(c06::weed_filter_args(&g, n));
                        desc = args.join(" ");
                        let argv: Vec<&str> = args.iter().map(|s| s.as_str()).collect();
                        must_ok(&run_ska(ctx, &dir, &argv), &format!("ska {desc}"))?;
                        let got = nk(ctx, &dir, "wf_out.skf")?;
                        let exp = match sp {
                            Some(sp) => t.filter(&sp),
                            None => t.clone(),
                        };
                        model::compare_nk(&got, &exp, k, rc, Some(k_bits_for(k))).map_err(|m| Outcome::Fail(format!("ska {desc} after the history: {m}")))?;
                        let _ = std::fs::remove_file(dir.join("wf_out.skf"));
                        (true, vec![])
                    }
                    Final::Nk => {
                        desc = format!("nk {file}");
                        let o = run_ska(ctx, &dir, &["nk", file]);
                        must_ok(&o, "nk")?;
                        (true, o.stdout)
                    }
                };
                outs.push((ok, out));
            }
            if outs[0] != outs[1] {
                return Err(Outcome::Fail(format!(
                    "final command #{fi} `ska {desc}` gives different results on the file with history and on a fresh file with the same content: exit ok {} vs {}; output {} vs {}",
                    outs[0].0, outs[1].0, crate::engine::truncate(&lossy(&outs[0].1), 300), crate::engine::truncate(&lossy(&outs[1].1), 300)
                )));
            }
        }
        Ok((interesting, n_ops))
    })();
    ctx.done(&dir);
    match r {
        Err(Outcome::Fail(m)) => Outcome::Fail(format!("k={k} rc={rc} history: {} || {m}", trace.join(" ; "))),
        Err(o) => o,
        Ok((interesting, n_ops)) => {
            let mut cl: Vec<&'static str> = kinds.clone();
            cl.sort();
            cl.dedup();
            if n_ops >= 4 { cl.push("ops>=4"); }
            if c.twins { cl.push("twin_samples"); }
            if kinds.iter().filter(|k| **k == "delete").count() >= 2 { cl.push(">=2_deletes"); }
            pass(interesting && n_ops >= 1 && !kinds.contains(&"ended_empty"), key_of(&(k, rc, &trace)), cl)
        }
    }
}

// ---- wide tables: sample counts around 256 (narrow counters), short histories

#[derive(Clone, Debug, Serialize, Deserialize)]
pub struct WideCase {
    pub n_sel: u16,
    pub k_sel: u8,
    pub anc: Vec<u8>,
    /// (position selector, base, carrier pattern seed)
    pub snps: Vec<(u16, u8, u16)>,
    pub del: Vec<u16>,
    pub flags: Flags,
}

fn wide_strategy() -> BoxedStrategy<WideCase> {
    (any::<u16>(), 0u8..3, proptest::collection::vec(0u8..4, 30..60), proptest::collection::vec((any::<u16>(), 0u8..4, any::<u16>()), 1..5), proptest::collection::vec(any::<u16>(), 1..3), c06::flags_strategy())
        .prop_map(|(n_sel, k_sel, anc, snps, del, flags)| WideCase { n_sel, k_sel, anc, snps, del, flags })
        .boxed()
}

fn check_wide(c: &WideCase, ctx: &Ctx) -> Outcome {
    let n = [255usize, 256, 257, 258, 300, 511, 513][gen::idx(c.n_sel, 7)];
    let k = [7usize, 15, 33][c.k_sel as usize % 3];
    let anc = gen::bases_to_seq(&c.anc);
    let anc = if anc.len() < k + 3 { gen::filler(k, 3) } else { anc };
    let samples: Vec<Sample> = (0..n)
        .map(|j| {
            let mut s = anc.clone();
            for (ps, b, seed) in &c.snps {
                if crate::engine::splitmix64(((*seed as u64) << 20) | j as u64) & 3 == 0 {
                    let p = gen::idx(*ps, s.len());
                    s[p] = model::BASES[*b as usize & 3];
                }
            }
            (format!("w{j}"), vec![s])
        })
        .collect();
    let dir = ctx.case_dir();
    let r: Result<(), Outcome> = (|| {
        must_ok(&build(ctx, &dir, "cur", &samples, k, true, 1), "ska build (wide)")?;
        let (_d, mut t) = model_table(&samples, k, true);
        let got = nk(ctx, &dir, "cur.skf")?;
        model::compare_nk(&got, &t, k, true, Some(k_bits_for(k))).map_err(|m| Outcome::Fail(format!("after build: {m}")))?;
        // delete one or two samples (recount)
        let mut names: Vec<String> = c.del.iter().map(|d| t.names[gen::idx(*d, n)].clone()).collect();
        names.dedup();
        let mut args: Vec<&str> = vec!["delete", "-s", "cur.skf"];
        args.extend(names.iter().map(|s| s.as_str()));
        must_ok(&run_ska(ctx, &dir, &args), "ska delete (wide)")?;
        t = t.delete(&names);
        let got = nk(ctx, &dir, "cur.skf")?;
        model::compare_nk(&got, &t, k, true, Some(k_bits_for(k))).map_err(|m| Outcome::Fail(format!("after deleting {names:?} from {n} samples: {m}")))?;
        // frequency/site filter through align, compared with the model and with a fresh file
        let nn = t.nsamples();
        let res = if k <= 31 { save_table::<u64>(&t, k, true, &dir.join("fresh.skf"), false) } else { save_table::<u128>(&t, k, true, &dir.join("fresh.skf"), false) };
        res.map_err(Outcome::Infra)?;
        for file in ["cur.skf", "fresh.skf"] {
            let mut a: Vec<String> = vec!["align".into()];
            a.extend(c06::align_args(&c.flags, nn));
            a.push(file.into());
            let argv: Vec<&str> = a.iter().map(|s| s.as_str()).collect();
            let o = run_ska(ctx, &dir, &argv);
            must_ok(&o, &format!("ska {}", a.join(" ")))?;
            c06::compare_align(&model::parse_fasta(&o.out_str()), &t, &c06::spec(&c.flags, nn)).map_err(|m| Outcome::Fail(format!("ska {} with {nn} samples: {m}", a.join(" "))))?;
        }
        Ok(())
    })();
    ctx.done(&dir);
    match r {
        Err(Outcome::Fail(m)) => Outcome::Fail(format!("wide table: n={n} k={k} ancestor={} snps={:?}: {m}", lossy(&anc), c.snps)),
        Err(o) => o,
        Ok(()) => pass(true, key_of(&(n, k, &anc, &c.snps, &c.del)), vec![if n >= 256 { ">=256_samples" } else { "255_samples" }]),
    }
}

const RULE: &str = "stateful: start = ska build of 2-6 related samples (ambiguity from repeats; in 30% of the cases every sample twice under two names, so that every k-mer is in >= 2 samples); history of 1-7 ops from {merge with newly built samples (either argument order), delete subset (names on the command line or in a names file), weed by FASTA, reverse weed, weed-filter with generated filter/threshold/ambig-as-missing/ambig-mask/no-gap-only-sites}; after every op nk --full-info == table model; at the end a fresh file with the model's content is written through the public API and three generated commands (align, distance, delete, map aln/vcf, weed-filter, nk) must give identical results on both files, align/delete/weed-filter also equal to the model. weed thresholds only where n*f is an exact integer. Non-trivial: the history contains a merge, a delete or a filter with --filter-ambig-as-missing and does not end with an empty table; distinct by the trace.";

fn show(c: &Case) -> serde_json::Value {
    json!({"k": c.set.k, "two_strand": c.set.rc, "samples": c.set.samples.len(), "ops": c.ops.iter().map(|o| match o {
        Op::Merge { extra, first } => format!("merge({} new, new_first={first})", extra.len()),
        Op::Delete { mask, names_file } => format!("delete(mask={mask:?}, names_file={names_file})"),
        Op::Weed { parts, reverse } => format!("weed({} seqs, reverse={reverse})", parts.len()),
        Op::Filter { flags } => format!("weed-filter({flags:?})"),
    }).collect::<Vec<_>>(), "finals": c.finals.iter().map(|f| format!("{f:?}")).collect::<Vec<_>>()})
}

fn stages(tier: Tier) -> Vec<Box<dyn Stage>> {
    vec![
        gen_stage_show("history", RULE, tier.pick(1600, 20_000), 250, case_strategy, check, show),
        gen_stage_show("wide_tables", "generated: 255-513 samples (both sides of 256 and 512) of a 30-60 base genome with shared SNPs, k in {7,15,33}; build, delete one or two samples, then align with generated filters on the file with history and on a fresh file: nk and the alignment must equal the table model at every step. Every case non-trivial.", tier.pick(48, 600), 10, wide_strategy, check_wide, |c| json!({"sample_count_index": gen::idx(c.n_sel, 7), "k_index": c.k_sel % 3, "snps": c.snps.len()})),
    ]
}

pub fn def() -> PropDef {
    PropDef {
        id: "C10",
        level: "exploration",
        assumptions: &[
            "ska weed --min-freq uses floor(n*f) while align/distance use ceil: histories only use thresholds where n*f is an exact integer (noted, not asserted)",
            "--filter-ambig-as-missing without any other filter request asks for nothing and is not generated",
            "the fresh file is injected through MergeSkaDict::build_from_array + MergeSkaArray::new + save (public API)",
        ],
        stages,
        post: None,
    }
}
