//! C14 — distances are SNP counts over shared k-mers plus k-mer set mismatch.

use proptest::prelude::*;
use serde::{Deserialize, Serialize};
use serde_json::json;

use super::common::*;
use super::PropDef;
use crate::cli::{self, run_ska};
use crate::engine::{gen_stage_show, key_of, pass, Ctx, Outcome, Stage, Tier};
use crate::gen::{self, SetCase};
use crate::model::{self, Table};

#[derive(Clone, Debug, Serialize, Deserialize)]
pub struct Case {
    pub t: TableCase,
    /// copy column a onto column b (identical samples)
    pub dup: Option<(u16, u16)>,
    pub freq: Freq,
    pub allow_ambiguous: bool,
    pub threads: u8,
    /// sort keys of a sample permutation
    pub perm: Vec<u16>,
    /// one sample without any split k-mer left (a control weeded with its own sequence): it still counts as a sample
    #[serde(default)]
    pub empty: Option<u16>,
}

fn case_strategy() -> BoxedStrategy<Case> {
    (
        table_case_strategy(12, 50, false).prop_map(|mut t| {
            t.n = t.n.max(2);
            t
        }),
        prop_oneof![2 => Just(None), 1 => (any::<u16>(), any::<u16>()).prop_map(Some)],
        freq_strategy(),
        any::<bool>(),
        prop::sample::select(vec![1u8, 1, 2, 3, 4, 8]),
        proptest::collection::vec(any::<u16>(), 2..6),
        prop_oneof![4 => Just(None), 1 => any::<u16>().prop_map(Some)],
    )
        .prop_map(|(t, dup, freq, allow_ambiguous, threads, perm, empty)| Case { t, dup, freq, allow_ambiguous, threads, perm, empty })
        .boxed()
}

pub fn case_table(c: &Case) -> Table {
    let mut t = c.t.table();
    if let Some((a, b)) = c.dup {
        let n = t.nsamples();
        let (a, b) = (gen::idx(a, n), gen::idx(b, n));
        if a != b {
            for r in t.rows.values_mut() {
                r[b] = r[a];
            }
            t.rows.retain(|_, r| r.iter().any(|x| *x != b'-'));
        }
    }
    // a quarter of the tables with >= 4 samples: names that are pieces of one another (P1, P1_T2, T2_R1, R1: timepoint
    // and replicate tags), so that different pairs of names join to the same text
    if t.nsamples() >= 4 && (c.t.k / 2 + t.nsamples() + t.rows.len()) % 4 == 0 {
        for (i, nm) in ["P1", "P1_T2", "T2_R1", "R1"].iter().enumerate() {
            t.names[i] = nm.to_string();
        }
    }
    if let Some(e) = c.empty {
        let n = t.nsamples();
        if n >= 3 {
            let e = gen::idx(e, n);
            for r in t.rows.values_mut() {
                r[e] = b'-';
            }
            t.rows.retain(|_, r| r.iter().any(|x| *x != b'-'));
        }
    }
    t
}

/// model: lines "s1\ts2\tD.DD\tM.MMMMM" for i<j in order
pub fn model_distance(t: &Table, threshold: usize) -> Vec<String> {
    let n = t.nsamples();
    let rows: Vec<&Vec<u8>> = t
        .rows
        .values()
        .filter(|r| r.iter().filter(|b| **b != b'-').count() >= threshold.max(1))
        .collect();
    let mut out = Vec::new();
    for i in 0..n {
        for j in (i + 1)..n {
            let (mut snp, mut one, mut any) = (0u64, 0u64, 0u64);
            for r in &rows {
                let (a, b) = (r[i], r[j]);
                match (a != b'-', b != b'-') {
                    (true, true) => {
                        any += 1;
                        if a != b {
                            snp += 1;
                        }
                    }
                    (true, false) | (false, true) => {
                        any += 1;
                        one += 1;
                    }
                    _ => {}
                }
            }
            let mm = if any == 0 { 0.0 } else { one as f64 / any as f64 };
            out.push(format!("{}\t{}\t{:.2}\t{:.5}", t.names[i], t.names[j], snp as f64, mm));
        }
    }
    out
}

fn parse_dist(text: &str) -> Result<Vec<String>, String> {
    let mut lines = text.lines();
    match lines.next() {
        Some("Sample1\tSample2\tDistance\tMismatches") => {}
        other => return Err(format!("unexpected header line {:?}", other)),
    }
    Ok(lines.map(|l| l.to_string()).collect())
}

fn dist_inproc<IntT>(t: &Table, k: usize, rc: bool, f: f64, filt_ambig: bool, path: &std::path::Path, rev: bool) -> Result<Vec<String>, String>
where
    IntT: for<'a> ska::ska_dict::bit_encoding::UInt<'a> + TryFrom<u128>,
{
    let mut arr = make_array::<IntT>(t, k, rc, rev)?;
    let out = Some(cli::p(path));
    let r = std::panic::catch_unwind(std::panic::AssertUnwindSafe(|| {
        ska::generic_modes::distance(&mut arr, &out, f, filt_ambig, 1);
    }));
    if let Err(e) = r {
        return Err(format!("distance panicked: {}", panic_msg(&e)));
    }
    let txt = std::fs::read_to_string(path).map_err(|e| e.to_string())?;
    parse_dist(&txt)
}

fn compare(got: &[String], exp: &[String], what: &str) -> Result<(), String> {
    if got == exp {
        return Ok(());
    }
    let mut msg = format!("{what}: {} lines, model {} lines;", got.len(), exp.len());
    let mut n = 0;
    for (g, e) in got.iter().zip(exp.iter()) {
        if g != e {
            n += 1;
            if n <= 3 {
                msg += &format!(" got [{}] expected [{}];", g.replace('\t', " "), e.replace('\t', " "));
            }
        }
    }
    Err(msg)
}

fn check_values(lines: &[String]) -> Result<(), String> {
    for l in lines {
        let f: Vec<&str> = l.split('\t').collect();
        if f.len() != 4 {
            return Err(format!("malformed line {l:?}"));
        }
        let m: f64 = f[3].parse().map_err(|_| format!("bad mismatch value in {l:?}"))?;
        if !(0.0..=1.0).contains(&m) {
            return Err(format!("mismatch proportion outside [0,1]: {l:?}"));
        }
    }
    Ok(())
}

fn check(c: &Case, ctx: &Ctx, via_cli: bool) -> Outcome {
    let t = case_table(c);
    let n = t.nsamples();
    let (k, rc) = (c.t.k, c.t.rc);
    let threshold = c.freq.ceil(n);
    let exp = model_distance(&t, threshold);
    // permuted table
    let mut order: Vec<usize> = (0..n).collect();
    order.sort_by_key(|i| (c.perm[i % c.perm.len()].wrapping_add((*i as u16).wrapping_mul(977)), *i));
    let tp = Table {
        names: order.iter().map(|i| t.names[*i].clone()).collect(),
        rows: t.rows.iter().map(|(a, r)| (a.clone(), order.iter().map(|i| r[*i]).collect())).collect(),
    };
    let exp_p = model_distance(&tp, threshold);
    let dir = ctx.case_dir();
    let fv = c.freq.value(n);
    let r: Result<(), Outcome> = (|| {
        let (got, got_rev, got_p) = if via_cli {
            for (tab, name, rev) in [(&t, "a.skf", false), (&t, "b.skf", true), (&tp, "p.skf", false)] {
                let res = if k <= 31 { save_table::<u64>(tab, k, rc, &dir.join(name), rev) } else { save_table::<u128>(tab, k, rc, &dir.join(name), rev) };
                res.map_err(Outcome::Infra)?;
            }
            let mut outs = Vec::new();
            for (file, threads) in [("a.skf", c.threads), ("b.skf", 1), ("p.skf", 1)] {
                let fa = c.freq.arg(n);
                let ts = threads.to_string();
                let mut args: Vec<&str> = vec!["distance", file, "--min-freq", &fa];
                if c.allow_ambiguous {
                    args.push("--allow-ambiguous");
                }
                if threads > 1 {
                    args.push("--threads");
                    args.push(&ts);
                }
                let o = run_ska(ctx, &dir, &args);
                must_ok(&o, &format!("ska {}", args.join(" ")))?;
                outs.push(parse_dist(&o.out_str()).map_err(Outcome::Fail)?);
            }
            (outs[0].clone(), outs[1].clone(), outs[2].clone())
        } else if k <= 31 {
            (
                dist_inproc::<u64>(&t, k, rc, fv, !c.allow_ambiguous, &dir.join("a.txt"), false).map_err(Outcome::Fail)?,
                dist_inproc::<u64>(&t, k, rc, fv, !c.allow_ambiguous, &dir.join("b.txt"), true).map_err(Outcome::Fail)?,
                dist_inproc::<u64>(&tp, k, rc, fv, !c.allow_ambiguous, &dir.join("p.txt"), false).map_err(Outcome::Fail)?,
            )
        } else {
            (
                dist_inproc::<u128>(&t, k, rc, fv, !c.allow_ambiguous, &dir.join("a.txt"), false).map_err(Outcome::Fail)?,
                dist_inproc::<u128>(&t, k, rc, fv, !c.allow_ambiguous, &dir.join("b.txt"), true).map_err(Outcome::Fail)?,
                dist_inproc::<u128>(&tp, k, rc, fv, !c.allow_ambiguous, &dir.join("p.txt"), false).map_err(Outcome::Fail)?,
            )
        };
        check_values(&got).map_err(Outcome::Fail)?;
        compare(&got, &exp, "distance table").map_err(Outcome::Fail)?;
        if got_rev != got {
            return Err(Outcome::Fail("result depends on the order in which k-mers were inserted".into()));
        }
        compare(&got_p, &exp_p, "distance table of the sample-permuted file").map_err(Outcome::Fail)?;
        // same unordered pair, same values
        let key = |l: &String| {
            let f: Vec<&str> = l.split('\t').collect();
            let mut p = vec![f[0].to_string(), f[1].to_string()];
            p.sort();
            (p, f[2].to_string(), f[3].to_string())
        };
        let mut a: Vec<_> = got.iter().map(key).collect();
        let mut b: Vec<_> = got_p.iter().map(key).collect();
        a.sort();
        b.sort();
        if a != b {
            return Err(Outcome::Fail("values of a pair changed when the samples were permuted".into()));
        }
        if got.len() != n * (n - 1) / 2 {
            return Err(Outcome::Fail(format!("{} lines for {n} samples (each unordered pair exactly once expected)", got.len())));
        }
        Ok(())
    })();
    ctx.done(&dir);
    match r {
        Err(Outcome::Fail(m)) => Outcome::Fail(format!(
            "k={k} min_freq={} (threshold {threshold}) allow_ambiguous={} threads={} names={:?} rows={:?}: {m}",
            fv, c.allow_ambiguous, c.threads, t.names, t.rows.values().map(|r| lossy(r)).collect::<Vec<_>>()
        )),
        Err(o) => o,
        Ok(()) => {
            let dropped = t.rows.values().any(|r| r.iter().filter(|b| **b != b'-').count() < threshold.max(1));
            let mut cl = vec![];
            let f9 = n >= 3 && threshold >= 2 && dropped;
            if f9 { cl.push(">=3_samples_threshold_drops_rows"); }
            let both = exp.iter().any(|l| {
                let f: Vec<&str> = l.split('\t').collect();
                f[2] != "0.00" && f[3] != "0.00000"
            });
            if both { cl.push("pair_with_snp_and_mismatch"); }
            if exp.iter().any(|l| l.ends_with("\t0.00\t0.00000")) { cl.push("identical_pair"); }
            if n >= 3 && !t.rows.is_empty() && (0..n).any(|j| t.rows.values().all(|r| r[j] == b'-')) { cl.push("sample_without_any_kmer"); }
            if c.allow_ambiguous { cl.push("allow_ambiguous"); }
            if c.threads > 1 && via_cli { cl.push("threads>1"); }
            pass(f9 || both, key_of(&(k, &c.freq, c.allow_ambiguous, &t.names, t.rows.values().collect::<Vec<_>>())), cl)
        }
    }
}

// ---- stage 2: files from ska build of related genomes (unambiguous ones only)

#[derive(Clone, Debug, Serialize, Deserialize)]
pub struct BuiltCase {
    pub set: SetCase,
    pub freq: Freq,
    pub allow_ambiguous: bool,
    pub threads: u8,
}

fn built_strategy() -> BoxedStrategy<BuiltCase> {
    (gen::clean_set_strategy(2, 8), freq_strategy(), any::<bool>(), prop::sample::select(vec![1u8, 2, 4]))
        .prop_map(|(set, freq, allow_ambiguous, threads)| BuiltCase { set, freq, allow_ambiguous, threads })
        .boxed()
}

fn check_built(c: &BuiltCase, ctx: &Ctx) -> Outcome {
    let (_a, mut samples) = gen::materialise_set_plain(&c.set);
    let (k, rc) = (c.set.k, c.set.rc);
    // one case in eight: 70-77 samples (the generated ones over and over, under new names), built with 8 or 16 threads
    let many = (k / 2 + samples.len() + c.set.anc.len()) % 8 == 0;
    if many {
        let base = samples.clone();
        let mut j = 0;
        while samples.len() < 70 + base.len() {
            let (n, r) = &base[j % base.len()];
            samples.push((format!("{n}_c{j}"), r.clone()));
            j += 1;
        }
    }
    let build_threads = if many { 8 + 8 * (k / 2 % 2) } else { 1 };
    let (_d, t) = model_table(&samples, k, rc);
    if t.rows.values().flatten().any(|b| model::sym_is_ambig(*b)) {
        return Outcome::Reject("table has ambiguity codes (outside the property's domain)".into());
    }
    let n = t.nsamples();
    let exp = model_distance(&t, c.freq.ceil(n));
    let dir = ctx.case_dir();
    let r: Result<(), Outcome> = (|| {
        must_ok(&build(ctx, &dir, "x", &samples, k, rc, build_threads), "ska build")?;
        let fa = c.freq.arg(n);
        let ts = c.threads.to_string();
        // -o into an existing, longer file: it must be replaced
        cli::plant_stale_output(&dir.join("d.txt"));
        let mut args: Vec<&str> = vec!["distance", "x.skf", "--min-freq", &fa, "-o", "d.txt"];
        if c.allow_ambiguous {
            args.push("--allow-ambiguous");
        }
        if c.threads > 1 {
            args.push("--threads");
            args.push(&ts);
        }
        let o = run_ska(ctx, &dir, &args);
        must_ok(&o, &format!("ska {}", args.join(" ")))?;
        let txt = std::fs::read_to_string(dir.join("d.txt")).map_err(|e| Outcome::Fail(format!("-o file not written: {e}")))?;
        let got = parse_dist(&txt).map_err(Outcome::Fail)?;
        check_values(&got).map_err(Outcome::Fail)?;
        compare(&got, &exp, "distance table").map_err(Outcome::Fail)
    })();
    ctx.done(&dir);
    match r {
        Err(Outcome::Fail(m)) => Outcome::Fail(format!("k={k} rc={rc} min_freq={} samples={}: {m}", c.freq.value(n), super::common::show_samples(&samples))),
        Err(o) => o,
        Ok(()) => {
            let both = exp.iter().any(|l| {
                let f: Vec<&str> = l.split('\t').collect();
                f[2] != "0.00" && f[3] != "0.00000"
            });
            let mut cl = if both { vec!["pair_with_snp_and_mismatch"] } else { vec![] };
            if many { cl.push(">=70_samples_built_with_8_or_16_threads"); }
            pass(both, key_of(&(k, rc, &c.freq, &samples)), cl)
        }
    }
}

const RULE: &str = "generated: unambiguous symbol tables (2-12 samples, any missingness, optional duplicated column) built through the public API; min-freq in {0,1,(j-1/2)/n,m/8}; +-allow-ambiguous; threads 1/2/4 (CLI); the same table saved with rows inserted in reverse order; a sample-permuted copy. Oracle: every unordered pair once, in order, SNP count and mismatch proportion == model over rows present in >= ceil(f n) samples, formatted {:.2}/{:.5}; identical results for the reversed insertion order; pair values invariant under permutation; mismatch in [0,1]. Non-trivial: (>=3 samples and threshold >=2 dropping >=1 row) or a pair with both a SNP and a k-mer mismatch.";

fn show(c: &Case) -> serde_json::Value {
    let t = case_table(c);
    json!({"k": c.t.k, "min_freq": c.freq.value(t.nsamples()), "allow_ambiguous": c.allow_ambiguous, "threads": c.threads, "rows": t.rows.values().take(12).map(|r| lossy(r)).collect::<Vec<_>>()})
}

// ---- many samples and rows: sample / row counts on block boundaries, several thread counts ----

#[derive(Clone, Debug, Serialize, Deserialize)]
pub struct BigCase {
    pub wide: bool,
    pub n_sel: u16,
    pub rows_sel: u16,
    pub salt: u64,
    pub stride: u16,
    pub pgap: u8,
    pub freq: Freq,
    pub threads: u8,
    pub via_cli: bool,
}

fn big_strategy() -> BoxedStrategy<BigCase> {
    (any::<bool>(), any::<u16>(), any::<u16>(), any::<u64>(), any::<u16>(), 0u8..40, freq_strategy(), prop::sample::select(vec![1u8, 2, 3, 4, 8, 16]), prop::bool::weighted(0.5))
        .prop_map(|(wide, n_sel, rows_sel, salt, stride, pgap, freq, threads, via_cli)| BigCase { wide, n_sel, rows_sel, salt, stride, pgap, freq, threads, via_cli })
        .boxed()
}

fn big_dims(c: &BigCase) -> (usize, usize, usize) {
    const NS: [usize; 11] = [8, 9, 15, 16, 17, 31, 32, 33, 63, 64, 65];
    const ROWS: [usize; 12] = [255, 256, 257, 999, 1000, 1001, 1023, 1024, 1025, 9999, 10000, 10001];
    // half of the cases: a sample count on or next to a power of two; the other half: any count from 2 to 70
    let n = if c.n_sel % 2 == 0 { NS[gen::idx(c.n_sel, NS.len())] } else { 2 + gen::idx(c.n_sel, 69) };
    (if c.wide { 35 } else { 17 }, n, ROWS[gen::idx(c.rows_sel, ROWS.len())])
}

fn check_big(c: &BigCase, ctx: &Ctx) -> Outcome {
    let (k, mut n, mut rows) = big_dims(c);
    // one case in sixteen: a long uniform table (70000 rows, three samples: the first holds a base everywhere, the
    // second nothing beyond the first 100 rows, the third another base): every pair is of one kind row after row
    let uniform = c.salt % 16 == 5;
    if uniform {
        n = 3;
        rows = 70_000;
    }
    let mut t = big_symbol_table(k, n, rows, c.salt, if uniform { 0 } else { c.pgap }, 0, c.stride);
    if uniform {
        for (i, r) in t.rows.values_mut().enumerate() {
            r[0] = b'A';
            r[1] = if i < 100 { b'A' } else { b'-' };
            r[2] = b'C';
        }
    }
    // a third of the cases: every row is variable and nothing is filtered, so that exactly `rows` rows are
    // compared (code that works through the rows in blocks meets its block size exactly)
    let mut c = c.clone();
    if uniform {
        c.freq = Freq::Zero;
    }
    if c.salt % 3 == 0 {
        c.freq = Freq::Zero;
        for (i, r) in t.rows.values_mut().enumerate() {
            let mut seen: Vec<u8> = r.iter().copied().filter(|b| *b != b'-').collect();
            seen.sort();
            seen.dedup();
            if seen.len() < 2 {
                let j = i % n;
                let other = if r[(j + 1) % n] == b'-' { b'A' } else { r[(j + 1) % n] };
                r[j] = model::BASES[(model::BASES.iter().position(|b| *b == other).unwrap_or(0) + 1) % 4];
                if r[(j + 1) % n] == b'-' {
                    r[(j + 1) % n] = other;
                }
            }
        }
    }
    let c = &c;
    let threshold = c.freq.ceil(n);
    let exp = model_distance(&t, threshold);
    let dir = ctx.case_dir();
    let r: Result<(), Outcome> = (|| {
        let got = if c.via_cli {
            let res = if c.wide { save_table::<u128>(&t, k, false, &dir.join("a.skf"), false) } else { save_table::<u64>(&t, k, false, &dir.join("a.skf"), false) };
            res.map_err(Outcome::Infra)?;
            let (fa, ts) = (c.freq.arg(n), c.threads.to_string());
            let args: Vec<&str> = vec!["distance", "a.skf", "--min-freq", &fa, "--threads", &ts];
            let o = run_ska(ctx, &dir, &args);
            must_ok(&o, &format!("ska {}", args.join(" ")))?;
            parse_dist(&o.out_str()).map_err(Outcome::Fail)?
        } else if c.wide {
            dist_inproc::<u128>(&t, k, false, c.freq.value(n), true, &dir.join("a.txt"), false).map_err(Outcome::Fail)?
        } else {
            dist_inproc::<u64>(&t, k, false, c.freq.value(n), true, &dir.join("a.txt"), false).map_err(Outcome::Fail)?
        };
        check_values(&got).map_err(Outcome::Fail)?;
        compare(&got, &exp, "distance table").map_err(Outcome::Fail)
    })();
    ctx.done(&dir);
    match r {
        Err(Outcome::Fail(m)) => Outcome::Fail(format!("k={k} table of {n} samples x {rows} rows (salt {}, gaps {}%), min_freq={} (threshold {threshold}) threads={} via_cli={}: {m}", c.salt, c.pgap, c.freq.value(n), c.threads, c.via_cli)),
        Err(o) => o,
        Ok(()) => {
            let mut cl = vec![];
            if c.via_cli && c.threads > 1 { cl.push("threads>1"); }
            if n % 8 != 0 { cl.push("samples_not_multiple_of_8"); }
            if threshold >= 2 { cl.push("threshold>=2"); }
            if uniform { cl.push("70000_rows_every_pair_of_one_kind"); }
            pass(true, key_of(&(k, n, rows, c.salt, c.pgap, &c.freq, c.threads, c.via_cli)), cl)
        }
    }
}

const BIG_RULE: &str = "generated: unambiguous tables of 2..70 samples (half of them on and next to 8,16,32,64) x 255..10001 rows (on and next to 256, 1000, 1024, 10000; in a third of the cases every row variable and unfiltered, so that exactly that many rows are compared; constant, constant with gaps, one deviating sample at any column, two alleles split at a column, random with generated gap density), k=17 / k=35, written through the public API; min-freq selectors as in the inproc stage; half of the cases through ska distance with --threads in {1,2,3,4,8,16}. Oracle: every line == model (pairs in order, SNP count, mismatch proportion). Every case non-trivial (hundreds of pairs with SNPs and mismatches).";

// ---- long, nearly identical genomes: mismatch proportions below the printed precision ----

#[derive(Clone, Debug, Serialize, Deserialize)]
pub struct LongCase {
    pub seed: u64,
    pub len: usize,
    pub k_sel: u8,
    /// bases missing at the end of the shortened sample (1..=3)
    pub trim: u8,
    /// the third sample's substitution is the middle base of the window that ends `back` bases before the end
    pub back: u8,
    pub order: u8,
    pub threads: u8,
}

fn long_strategy() -> BoxedStrategy<LongCase> {
    (any::<u64>(), 205_000usize..320_000, 0u8..3, prop_oneof![3 => Just(1u8), 1 => 2u8..=3], prop_oneof![1 => Just(0u8), 1 => 1u8..4], 0u8..6, prop::sample::select(vec![1u8, 2, 4]))
        .prop_map(|(seed, len, k_sel, trim, back, order, threads)| LongCase { seed, len, k_sel, trim, back, order, threads })
        .boxed()
}

fn long_samples_k(c: &LongCase) -> usize {
    [31usize, 21, 35][c.k_sel as usize % 3]
}

fn long_samples(c: &LongCase) -> (usize, Vec<Sample>) {
    let k = [31usize, 21, 35][c.k_sel as usize % 3];
    let h = (k - 1) / 2;
    let mut x = c.seed | 1;
    let g: Vec<u8> = (0..c.len).map(|_| { x = crate::engine::splitmix64(x); model::BASES[(x >> 40) as usize & 3] }).collect();
    let short = g[..g.len() - c.trim as usize].to_vec();
    let mut snp = g.clone();
    let p = g.len() - 1 - c.back as usize - h;
    snp[p] = model::BASES[(model::BASES.iter().position(|b| *b == snp[p]).unwrap() + 1 + (c.seed % 3) as usize) % 4];
    let three = [("full".to_string(), vec![g]), ("short".to_string(), vec![short]), ("snp".to_string(), vec![snp])];
    const PERMS: [[usize; 3]; 6] = [[0, 1, 2], [0, 2, 1], [1, 0, 2], [1, 2, 0], [2, 0, 1], [2, 1, 0]];
    (k, PERMS[c.order as usize % 6].iter().map(|i| three[*i].clone()).collect())
}

fn check_long(c: &LongCase, ctx: &Ctx) -> Outcome {
    let (k, samples) = long_samples(c);
    let (_d, t) = model_table(&samples, k, true);
    if t.rows.values().flatten().any(|b| model::sym_is_ambig(*b)) {
        return Outcome::Reject("table has ambiguity codes (outside the property's domain)".into());
    }
    let exp = model_distance(&t, 0);
    let dir = ctx.case_dir();
    let r: Result<(), Outcome> = (|| {
        must_ok(&build(ctx, &dir, "x", &samples, k, true, 1), "ska build")?;
        let ts = c.threads.to_string();
        let mut args: Vec<&str> = vec!["distance", "x.skf", "--min-freq", "0"];
        if c.threads > 1 {
            args.push("--threads");
            args.push(&ts);
        }
        let o = run_ska(ctx, &dir, &args);
        must_ok(&o, &format!("ska {}", args.join(" ")))?;
        let got = parse_dist(&o.out_str()).map_err(Outcome::Fail)?;
        check_values(&got).map_err(Outcome::Fail)?;
        compare(&got, &exp, "distance table").map_err(Outcome::Fail)
    })();
    ctx.done(&dir);
    match r {
        Err(Outcome::Fail(m)) => Outcome::Fail(format!("k={k} three genomes of {} bases from seed {} (full; without its last {} bases; with one substitution {} bases before the last window's middle), order {:?}: {m}; expected {:?}", c.len, c.seed, c.trim, c.back, samples.iter().map(|s| s.0.clone()).collect::<Vec<_>>(), exp)),
        Err(o) => o,
        Ok(()) => {
            let tiny = exp.iter().any(|l| { let f: Vec<&str> = l.split('\t').collect(); f[2] == "0.00" && f[3] == "0.00000" });
            let mut cl = vec![];
            if tiny { cl.push("pair_printed_as_0.00_0.00000_although_not_identical"); }
            if c.back < c.trim { cl.push("substitution_in_a_kmer_the_short_sample_lacks"); }
            pass(true, key_of(&(c.seed, c.len, c.k_sel, c.trim, c.back, c.order)), cl)
        }
    }
}

fn stages(tier: Tier) -> Vec<Box<dyn Stage>> {
    vec![
        gen_stage_show("inproc", RULE, tier.pick(12_000, 200_000), 1500, case_strategy, |c, ctx| check(c, ctx, false), show),
        gen_stage_show("cli", RULE, tier.pick(1600, 20_000), 200, case_strategy, |c, ctx| check(c, ctx, true), show),
        gen_stage_show("wide_and_long", BIG_RULE, tier.pick(160, 2400), 20, big_strategy, check_big, |c| { let (k, n, rows) = big_dims(c); json!({"k": k, "samples": n, "rows": rows, "salt": c.salt, "threads": c.threads, "via_cli": c.via_cli}) }),
        gen_stage_show("long_near_identical", "generated: three genomes of 205000-320000 random bases at k = 31, 21 or 35 (a full one, the same without its last 1-3 bases, the same with one substitution at the middle of one of the last four windows) in a generated order, ska build + ska distance --min-freq 0 with 1/2/4 threads; == model (cases with a stored ambiguity code rejected). The mismatch proportion between the full and the shortened genome is below the printed precision. Every case non-trivial.", tier.pick(12, 80), 3, long_strategy, check_long, |c| json!({"seed": c.seed, "len": c.len, "k": long_samples_k(c), "trim": c.trim, "back": c.back, "order": c.order, "threads": c.threads})),
        gen_stage_show("built", "generated: 2-8 related genomes through ska build (tables with ambiguity codes rejected as outside the domain), ska distance -o file with generated min-freq/threads; == model. Non-trivial: a pair with both a SNP and a k-mer mismatch.", tier.pick(640, 8000), 150, built_strategy, check_built, |c| json!({"k": c.set.k, "samples": c.set.samples.len()})),
    ]
}

pub fn def() -> PropDef {
    PropDef {
        id: "C14",
        level: "exploration",
        assumptions: &[
            "files without ambiguity codes (the property's domain)",
            "min-freq values chosen so that ceil(f*n) is immune to floating-point noise",
            "in-process calls use threads=1 (ska configures rayon's global pool once per process); thread counts >1 go through the CLI",
        ],
        stages,
        post: None,
    }
}
