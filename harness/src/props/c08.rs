//! C08 — deleting samples leaves exactly the file built from the remaining samples.

use proptest::prelude::*;
use serde::{Deserialize, Serialize};
use serde_json::json;

use super::common::*;
use super::PropDef;
use crate::cli::run_ska;
use crate::engine::{gen_stage_show, key_of, pass, Ctx, Outcome, Stage, Tier};
use crate::gen::{self, SetCase};
use crate::model;

#[derive(Clone, Debug, Serialize, Deserialize)]
pub struct Case {
    pub set: SetCase,
    /// cyclic deletion mask
    pub del: Vec<bool>,
    pub names_file: bool,
    pub in_place: bool,
    /// 0 = normal deletion; 1 = unknown name added; 2 = all names (both must be refused)
    pub refusal: u8,
    /// order keys in which the names are passed
    pub order: Vec<u16>,
}

fn case_strategy() -> BoxedStrategy<Case> {
    (
        gen::set_strategy(2, 8),
        proptest::collection::vec(any::<bool>(), 2..8),
        any::<bool>(),
        any::<bool>(),
        prop_oneof![8 => Just(0u8), 1 => Just(1u8), 1 => Just(2u8)],
        proptest::collection::vec(any::<u16>(), 1..4),
    )
        .prop_map(|(set, del, names_file, in_place, refusal, order)| Case { set, del, names_file, in_place, refusal, order })
        .boxed()
}

fn del_indices(c: &Case, n: usize) -> Vec<usize> {
    let mut d: Vec<usize> = (0..n).filter(|i| c.del[i % c.del.len()]).collect();
    if d.is_empty() {
        d.push(n / 2);
    }
    if d.len() == n {
        d.remove(0);
    }
    d
}


fn check(c: &Case, ctx: &Ctx) -> Outcome {
    let (_anc, samples) = gen::materialise_set(&c.set);
    let (k, rc) = (c.set.k, c.set.rc);
    let n = samples.len();
    let del = del_indices(c, n);
    let mut del_names: Vec<String> = del.iter().map(|i| samples[*i].0.clone()).collect();
    // pass the names in a generated order
    let mut ord: Vec<usize> = (0..del_names.len()).collect();
    ord.sort_by_key(|i| (c.order[i % c.order.len()].wrapping_add((*i as u16).wrapping_mul(31337)), *i));
    del_names = ord.iter().map(|i| del_names[*i].clone()).collect();
    match c.refusal {
        // a name that is in nobody's file: an invented one, or an existing one in another letter case
        1 if (n + k) % 5 == 4 && !samples.iter().any(|s| s.0 == "2") => del_names.push("2".to_string()),
        1 => del_names.push(if (n + k) % 2 == 0 { "not_a_sample".to_string() } else { let up = samples[del[0]].0.to_uppercase(); if samples.iter().any(|s| s.0 == up) { "not_a_sample".to_string() } else { up } }),
        2 => del_names = samples.iter().map(|s| s.0.clone()).collect(),
        _ => {}
    }
    // a name may be asked for twice (two lists joined): deleting it once is all there is to do
    if c.refusal == 0 && n >= 3 && del_names.len() + 1 < n && (n + k / 2 + del_names.len()) % 4 == 0 {
        let dup = del_names[0].clone();
        del_names.push(dup);
    }
    let dir = ctx.case_dir();
    let r: Result<(bool, bool), Outcome> = (|| {
        must_ok(&build(ctx, &dir, "x", &samples, k, rc, 1), "ska build")?;
        let before = std::fs::read(dir.join("x.skf")).map_err(|e| Outcome::Infra(e.to_string()))?;
        let mut args: Vec<String> = vec!["delete".into(), "-s".into(), "x.skf".into()];
        if !c.in_place {
            args.push("-o".into());
            // with or without the .skf suffix
            args.push(["y", "y.skf", "y.2"][(n + k / 2) % 3].into());
        }
        if c.names_file && c.refusal == 1 && (n + k) % 3 == 0 {
            // the unknown name is a line in another character encoding (Latin-1 'Göteborg_7'): it names nobody
            let mut bytes = names_file_text(&del_names[..del_names.len() - 1], 0).into_bytes();
            bytes.extend_from_slice(b"G\xf6teborg_7\n");
            std::fs::write(dir.join("names.txt"), bytes).unwrap();
            args.push("-f".into());
            args.push("names.txt".into());
        } else if c.names_file {
            std::fs::write(dir.join("names.txt"), names_file_text(&del_names, n + k)).unwrap();
            args.push("-f".into());
            args.push("names.txt".into());
        } else {
            args.extend(del_names.iter().cloned());
        }
        let argv: Vec<&str> = args.iter().map(|s| s.as_str()).collect();
        let o = run_ska(ctx, &dir, &argv);
        if c.refusal != 0 {
            must_refuse(&o, if c.refusal == 1 { "delete naming a sample that is not in the file" } else { "delete of all samples" })?;
            let after = std::fs::read(dir.join("x.skf")).map_err(|e| Outcome::Infra(e.to_string()))?;
            if after != before {
                return Err(Outcome::Fail("refused delete changed the input file".into()));
            }
            if dir.join("y.skf").exists() || dir.join("y.2.skf").exists() {
                return Err(Outcome::Fail("refused delete wrote an output file".into()));
            }
            return Ok((true, false));
        }
        must_ok(&o, &format!("ska delete {:?}", &args[1..]))?;
        let result_file = if c.in_place {
            "x.skf"
        } else {
            // -o y, -o y.skf and -o y.2 must write y.skf, y.skf and y.2.skf
            match (n + k / 2) % 3 {
                2 => "y.2.skf",
                _ => "y.skf",
            }
        };
        if !dir.join(result_file).exists() {
            return Err(Outcome::Fail(format!("ska {:?} did not write {result_file}", &args[1..])));
        }
        if !c.in_place {
            let after = std::fs::read(dir.join("x.skf")).map_err(|e| Outcome::Infra(e.to_string()))?;
            if after != before {
                return Err(Outcome::Fail("delete -o changed the input file".into()));
            }
        }
        let got = nk(ctx, &dir, result_file)?;
        let (_d, full) = model_table(&samples, k, rc);
        let dn: Vec<String> = del.iter().map(|i| samples[*i].0.clone()).collect();
        let expected = full.delete(&dn);
        model::compare_nk(&got, &expected, k, rc, Some(k_bits_for(k))).map_err(|m| Outcome::Fail(format!("after delete vs model: {m}")))?;
        let remaining: Vec<Sample> = (0..n).filter(|i| !del.contains(i)).map(|i| samples[i].clone()).collect();
        must_ok(&build(ctx, &dir, "rem", &remaining, k, rc, 1), "ska build of the remaining samples")?;
        let j = nk(ctx, &dir, "rem.skf")?;
        if j.table() != got.table() {
            return Err(Outcome::Fail(format!("file after delete differs from a build of the remaining samples: {}", table_diff(&got.table(), &j.table()))));
        }
        let rows_gone = full.rows.len() > expected.rows.len();
        let nonadjacent = del.len() >= 2 && del.windows(2).any(|w| w[1] > w[0] + 1);
        Ok((rows_gone, nonadjacent))
    })();
    ctx.done(&dir);
    match r {
        Err(Outcome::Fail(m)) => Outcome::Fail(format!("k={k} rc={rc} delete={del_names:?} names_file={} in_place={} samples={}: {m}", c.names_file, c.in_place, show_samples(&samples))),
        Err(o) => o,
        Ok((rows_gone, nonadj)) => {
            let mut cl = vec![];
            if c.refusal == 1 { cl.push("refusal_unknown_name"); }
            if c.names_file && c.refusal == 1 && (n + k) % 3 == 0 { cl.push("refusal_names_file_line_in_another_encoding"); }
            if c.refusal == 2 { cl.push("refusal_all_samples"); }
            if c.refusal == 0 {
                if rows_gone { cl.push("rows_disappear"); }
                if nonadj { cl.push("nonadjacent_columns"); }
                if del.len() >= 2 { cl.push(">=2_deleted"); }
            }
            if c.names_file { cl.push("names_file"); } else { cl.push("names_on_cmdline"); }
            if c.in_place { cl.push("in_place"); }
            if k >= 33 { cl.push("128bit"); }
            let nt = c.refusal != 0 || (rows_gone && (nonadj || c.names_file));
            pass(nt, key_of(&(k, rc, &del_names, c.names_file, c.in_place, &samples)), cl)
        }
    }
}

const RULE: &str = "generated: file of 2-8 related samples; a non-empty proper subset deleted (names in generated order, on the command line or one per line in a names file, in place or with -o); 20% refusal cases (unknown name added / all names). Oracle: nk --full-info == model (drop columns, drop emptied rows) == nk of ska build of the remaining samples; refusals exit non-zero and leave the file byte-identical. Non-trivial: a refusal case, or (a row disappears and (>=2 non-adjacent columns deleted or names-file route)).";

// ---- tables with row counts on block boundaries, deleted through the CLI ----

#[derive(Clone, Debug, Serialize, Deserialize)]
pub struct SizedCase {
    pub wide: bool,
    pub n: usize,
    pub del_mask: u32,
    pub size_sel: u16,
    /// 0: the surviving rows hit the boundary size, 1: all rows before the delete do
    pub which: u8,
    pub gone: usize,
    pub stride: u16,
    pub salt: u64,
}

fn sized_strategy() -> BoxedStrategy<SizedCase> {
    (any::<bool>(), 2usize..7, any::<u32>(), any::<u16>(), 0u8..2, 1usize..60, any::<u16>(), any::<u64>())
        .prop_map(|(wide, n, del_mask, size_sel, which, gone, stride, salt)| SizedCase { wide, n, del_mask, size_sel, which, gone, stride, salt })
        .boxed()
}

fn check_sized(c: &SizedCase, ctx: &Ctx) -> Outcome {
    let k = if c.wide { 35 } else { 17 };
    let n = c.n;
    // a non-empty proper subset of the samples
    let mut mask = c.del_mask & ((1u32 << n) - 1);
    if mask == 0 {
        mask = 1;
    }
    if mask == (1u32 << n) - 1 {
        mask &= !1;
    }
    let size = BOUNDARY_SIZES[gen::idx(c.size_sel, BOUNDARY_SIZES.len())];
    let (surv, gone) = if c.which == 0 { (size, c.gone) } else { (size - c.gone, c.gone) };
    let t = sized_table(k, n, mask, surv, gone, c.stride, c.salt);
    let del_names: Vec<String> = (0..n).filter(|j| mask >> j & 1 == 1).map(|j| t.names[j].clone()).collect();
    let dir = ctx.case_dir();
    let r: Result<(), Outcome> = (|| {
        let f = dir.join("t.skf");
        if c.wide { save_table::<u128>(&t, k, false, &f, c.salt % 2 == 0) } else { save_table::<u64>(&t, k, false, &f, c.salt % 2 == 0) }.map_err(Outcome::Infra)?;
        let mut args: Vec<&str> = vec!["delete", "-s", "t.skf", "-o", "out"];
        args.extend(del_names.iter().map(|s| s.as_str()));
        must_ok(&run_ska(ctx, &dir, &args), "ska delete -o out")?;
        let got = nk(ctx, &dir, "out.skf")?;
        let expected = t.delete(&del_names);
        if expected.rows.len() != surv {
            return Err(Outcome::Infra("sized table construction is off".into()));
        }
        model::compare_nk(&got, &expected, k, false, Some(k_bits_for(k))).map_err(|m| Outcome::Fail(format!("after delete vs model: {m}")))
    })();
    ctx.done(&dir);
    match r {
        Err(Outcome::Fail(m)) => Outcome::Fail(format!("k={k} table of {} rows ({surv} with a base in a remaining sample, {gone} only in deleted samples), {n} samples, delete={del_names:?}: {m}", surv + gone)),
        Err(o) => o,
        Ok(()) => pass(true, key_of(&(k, n, mask, surv, gone, c.stride, c.salt)), vec![if c.which == 0 { "surviving_rows_on_boundary" } else { "rows_before_delete_on_boundary" }, if surv % 1024 == 0 { "surviving_rows_multiple_of_1024" } else { "other_size" }]),
    }
}

const SIZED_RULE: &str = "generated tables written through the public API (k=17 64-bit / k=35 128-bit, 2-6 samples): the number of rows that survive the delete, or the number of rows before it, is one of 255,256,257,1023,1024,1025,2047,2048,2049,3072,4095,4096,4097,8192,12288,65535,65536,65537, and 1-59 rows have symbols only in the deleted samples (symbols: bases, 10% ambiguity codes incl. N, 20% gaps); ska delete -o through the CLI. Oracle: nk --full-info == model (drop columns, drop emptied rows). Every case non-trivial (rows disappear).";

fn stages(tier: Tier) -> Vec<Box<dyn Stage>> {
    vec![gen_stage_show("delete", RULE, tier.pick(2000, 24_000), 200, case_strategy, check, |c| {
        let (_a, s) = gen::materialise_set(&c.set);
        json!({"k": c.set.k, "two_strand": c.set.rc, "delete_idx": del_indices(c, s.len()), "names_file": c.names_file, "in_place": c.in_place, "refusal": c.refusal,
            "samples": s.iter().map(|(n, r)| json!({"name": n, "records": r.iter().map(|x| lossy(x)).collect::<Vec<_>>()})).collect::<Vec<_>>()})
    }),
    gen_stage_show("sized_tables", SIZED_RULE, tier.pick(160, 2400), 20, sized_strategy, check_sized, |c| serde_json::to_value(c).unwrap())]
}

pub fn def() -> PropDef {
    PropDef {
        id: "C08",
        level: "exploration",
        assumptions: &["names file format: one sample name per line (as the property states)", "C01's model for the content of the built file"],
        stages,
        post: None,
    }
}
