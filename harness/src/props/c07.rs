//! C07 — merging .skf files equals building all their samples together.

use proptest::prelude::*;
use serde::{Deserialize, Serialize};
use serde_json::json;

use super::common::*;
use super::PropDef;
use crate::cli::{self, run_ska};
use crate::engine::{gen_stage_show, key_of, pass, Ctx, Outcome, Stage, Tier};
use crate::gen::{self, SetCase};
use crate::model;

#[derive(Clone, Debug, Serialize, Deserialize)]
pub struct Case {
    pub set: SetCase,
    /// group of each sample (cyclic), 0..4
    pub groups: Vec<u8>,
    /// argument order keys
    pub order: Vec<u16>,
    pub nested: bool,
}

fn case_strategy() -> BoxedStrategy<Case> {
    (
        prop_oneof![3 => gen::set_strategy(2, 8), 2 => prop::sample::select(vec![29usize, 31, 33, 35]).prop_flat_map(|k| gen::set_strategy_k(k, 2, 6))],
        proptest::collection::vec(0u8..4, 2..8),
        proptest::collection::vec(any::<u16>(), 1..5),
        prop::bool::weighted(0.4),
    )
        .prop_map(|(set, groups, order, nested)| Case { set, groups, order, nested })
        .boxed()
}

/// sample indices per file, in argument order
fn plan(c: &Case, n: usize) -> Vec<Vec<usize>> {
    let mut gs: Vec<Vec<usize>> = vec![vec![]; 4];
    for i in 0..n {
        gs[(c.groups[i % c.groups.len()] % 4) as usize].push(i);
    }
    let mut gs: Vec<Vec<usize>> = gs.into_iter().filter(|g| !g.is_empty()).collect();
    if gs.len() == 1 {
        let last = gs[0].pop().unwrap();
        gs.push(vec![last]);
    }
    let mut idx: Vec<usize> = (0..gs.len()).collect();
    idx.sort_by_key(|i| (c.order[i % c.order.len()].wrapping_add((*i as u16).wrapping_mul(40503)), *i));
    idx.into_iter().map(|i| gs[i].clone()).collect()
}

fn check(c: &Case, ctx: &Ctx) -> Outcome {
    let (_anc, mut samples) = gen::materialise_set(&c.set);
    let (k, rc) = (c.set.k, c.set.rc);
    // In a fifth of the cases two different samples carry the same name (the same isolate sequenced in
    // two batches, dirA/contigs.fa and dirB/contigs.fa): names are labels, every sample keeps its column.
    if samples.len() >= 3 && (k / 2 + samples.len()) % 5 == 0 {
        let last = samples.len() - 1;
        samples[last].0 = samples[0].0.clone();
    }
    // one case in six: many inputs in one call (9-20 files of one sample each: the generated samples over and over
    // under new names), as `ska merge *.skf` hands them over
    let many_files = !c.nested && (k / 2 + samples.len() + c.groups.len()) % 6 == 0;
    if many_files {
        let base = samples.clone();
        let want = [9usize, 10, 11, 12, 13, 15, 17, 20][(k / 2 + base.len()) % 8];
        let mut j = 0;
        while samples.len() < want {
            let (n, r) = &base[j % base.len()];
            samples.push((format!("{n}_f{j}"), r.clone()));
            j += 1;
        }
    }
    let files = if many_files { (0..samples.len()).map(|i| vec![i]).collect() } else { plan(c, samples.len()) };
    let dir = ctx.case_dir();
    let r: Result<(bool, bool), Outcome> = (|| {
        let mut tables = Vec::new();
        for (fi, idxs) in files.iter().enumerate() {
            let ss: Vec<Sample> = idxs.iter().map(|i| samples[*i].clone()).collect();
            let o = build(ctx, &dir, &format!("g{fi}"), &ss, k, rc, 1);
            must_ok(&o, "ska build of a part")?;
            tables.push(model_table(&ss, k, rc).1);
        }
        let mut names: Vec<String> = (0..files.len()).map(|i| format!("g{i}.skf")).collect();
        // every third case: the last two inputs are two batches' files of the same name in different directories
        if files.len() >= 2 && (k / 2 + samples.len() + files.len()) % 3 == 1 {
            for (d, i) in [("batch1", files.len() - 2), ("batch2", files.len() - 1)] {
                std::fs::create_dir_all(dir.join(d)).map_err(|e| Outcome::Infra(e.to_string()))?;
                std::fs::rename(dir.join(&names[i]), dir.join(d).join("run.skf")).map_err(|e| Outcome::Infra(e.to_string()))?;
                names[i] = format!("{d}/run.skf");
            }
        }
        let mut expected = tables[0].clone();
        for t in &tables[1..] {
            expected = expected.merge(t);
        }
        if c.nested && files.len() >= 3 {
            let o = run_ska(ctx, &dir, &["merge", &names[0], &names[1], "-o", "m1"]);
            must_ok(&o, "ska merge (inner)")?;
            let mut args: Vec<&str> = vec!["merge", "m1.skf"];
            for n in &names[2..] {
                args.push(n);
            }
            // half of the nested merges grow the collection in place: the output is the first input
            let in_place = (k / 2 + files.len() + samples.len()) % 2 == 0;
            args.extend_from_slice(&["-o", if in_place { "m1" } else { "m" }]);
            let o = run_ska(ctx, &dir, &args);
            must_ok(&o, "ska merge (outer, first input is a merged file)")?;
            if in_place {
                std::fs::rename(dir.join("m1.skf"), dir.join("m.skf")).map_err(|e| Outcome::Infra(e.to_string()))?;
            }
        } else if c.nested && files.len() == 2 {
            // merged file as the *second* argument: (g0) + (g1+g0') is not possible without
            // duplicate names, so nest on the right with a third build of the last sample set
            let mut args: Vec<&str> = vec!["merge"];
            for n in &names {
                args.push(n);
            }
            args.extend_from_slice(&["-o", "m"]);
            let o = run_ska(ctx, &dir, &args);
            must_ok(&o, "ska merge")?;
        } else {
            let mut args: Vec<&str> = vec!["merge"];
            for n in &names {
                args.push(n);
            }
            // the output prefix may or may not carry the .skf suffix already
            // the output prefix may carry the .skf suffix already, or contain a dot of its own
            // or name a file in another directory whose name has a dot
            let prefix = ["m", "m.skf", "m.v1", "out.d/m", "m.skf.skf"][(samples.len() + k / 2) % 5];
            std::fs::create_dir_all(dir.join("out.d")).map_err(|e| Outcome::Infra(e.to_string()))?;
            args.extend_from_slice(&["-o", prefix]);
            let o = run_ska(ctx, &dir, &args);
            must_ok(&o, "ska merge")?;
            let want = if prefix.ends_with(".skf") { prefix.to_string() } else { format!("{prefix}.skf") };
            if !dir.join(&want).exists() {
                return Err(Outcome::Fail(format!("merge -o {prefix} did not write {want}")));
            }
            if want != "m.skf" {
                std::fs::rename(dir.join(&want), dir.join("m.skf")).map_err(|e| Outcome::Infra(e.to_string()))?;
            }
        }
        let got = nk(ctx, &dir, "m.skf")?;
        model::compare_nk(&got, &expected, k, rc, Some(k_bits_for(k))).map_err(|m| Outcome::Fail(format!("merged file vs model: {m}")))?;
        // differential: one joint build in the same order
        let joint: Vec<Sample> = files.iter().flatten().map(|i| samples[*i].clone()).collect();
        let o = build(ctx, &dir, "joint", &joint, k, rc, 1);
        must_ok(&o, "joint ska build")?;
        let j = nk(ctx, &dir, "joint.skf")?;
        if j.table() != got.table() {
            return Err(Outcome::Fail(format!("merged file differs from joint build: {}", table_diff(&got.table(), &j.table()))));
        }
        // non-trivial: some k-mer missing on the left and some on the right
        let n0 = tables[0].nsamples();
        let left_missing = expected.rows.values().any(|r| r[..n0].iter().all(|b| *b == b'-'));
        let right_missing = expected.rows.values().any(|r| r[n0..].iter().all(|b| *b == b'-'));
        Ok((left_missing && right_missing || many_files, c.nested && files.len() >= 3))
    })();
    ctx.done(&dir);
    match r {
        Err(Outcome::Fail(m)) => Outcome::Fail(format!("k={k} rc={rc} files={files:?} nested={} samples={}: {m}", c.nested, show_samples(&samples))),
        Err(o) => o,
        Ok((both, nested)) => {
            let mut cl = vec![];
            if both { cl.push("padding_both_sides"); }
            if nested { cl.push("nested"); }
            if k >= 33 { cl.push("128bit"); }
            if files.len() >= 3 { cl.push(">=3_files"); }
            if files.iter().any(|f| f.len() >= 2) { cl.push("multi_sample_input"); }
            if many_files { cl.push(">=9_input_files_in_one_call"); }
            pass(both, key_of(&(k, rc, &files, c.nested, &samples)), cl)
        }
    }
}


// ---- refusal: different k or strand mode

#[derive(Clone, Debug, Serialize, Deserialize)]
pub struct RefuseCase {
    pub set: SetCase,
    /// 0: other k same width, 1: other k other width, 2: other strand mode
    pub kind: u8,
    pub bad_first: bool,
    pub k2sel: u16,
}

fn refuse_strategy() -> BoxedStrategy<RefuseCase> {
    (gen::set_strategy(2, 4), 0u8..3, any::<bool>(), any::<u16>())
        .prop_map(|(set, kind, bad_first, k2sel)| RefuseCase { set, kind, bad_first, k2sel })
        .boxed()
}

fn check_refuse(c: &RefuseCase, ctx: &Ctx) -> Outcome {
    let (_anc, samples) = gen::materialise_set(&c.set);
    let (k, rc) = (c.set.k, c.set.rc);
    let same_width: Vec<usize> = gen::valid_ks().into_iter().filter(|x| *x != k && (*x <= 31) == (k <= 31)).collect();
    let other_width: Vec<usize> = gen::valid_ks().into_iter().filter(|x| (*x <= 31) != (k <= 31)).collect();
    let (k2, rc2) = match c.kind % 3 {
        0 => (same_width[gen::idx(c.k2sel, same_width.len())], rc),
        1 => (other_width[gen::idx(c.k2sel, other_width.len())], rc),
        _ => (k, !rc),
    };
    let dir = ctx.case_dir();
    let r: Result<(), Outcome> = (|| {
        let a: Vec<Sample> = samples[..1].to_vec();
        // the second file is built with other settings from long filler records so that it is valid for any k
        let b: Vec<Sample> = samples[1..].iter().enumerate().map(|(i, (n, recs))| {
            let mut r2 = recs.clone();
            r2.push(gen::filler(63, i));
            (n.clone(), r2)
        }).collect();
        must_ok(&build(ctx, &dir, "a", &a, k, rc, 1), "build a")?;
        must_ok(&build(ctx, &dir, "b", &b, k2, rc2, 1), "build b")?;
        let args: Vec<&str> = if c.bad_first { vec!["merge", "b.skf", "a.skf", "-o", "m"] } else { vec!["merge", "a.skf", "b.skf", "-o", "m"] };
        let o = run_ska(ctx, &dir, &args);
        must_refuse(&o, &format!("merge of files with k={k},rc={rc} and k={k2},rc={rc2}"))?;
        if dir.join("m.skf").exists() || dir.join("m").exists() {
            return Err(Outcome::Fail(format!("refused merge (k={k},rc={rc} with k={k2},rc={rc2}) still wrote an output file")));
        }
        Ok(())
    })();
    ctx.done(&dir);
    match r {
        Err(o) => o,
        Ok(()) => pass(true, key_of(&(k, rc, k2, rc2, c.bad_first)), vec![match c.kind % 3 { 0 => "other_k_same_width", 1 => "other_k_other_width", _ => "other_strand_mode" }]),
    }
}

// ---- files written by earlier releases (the repository's own fixtures, copied to /verif/fixtures/old_skf) ----

const OLD_FILES: [(&str, usize); 5] = [("merge.skf", 17), ("merge_k41.skf", 41), ("merge_k9.skf", 9), ("test_skalo.skf", 7), ("test_skalo_indel.skf", 7)];

#[derive(Clone, Debug, Serialize, Deserialize)]
pub struct OldCase {
    pub file: u8,
    /// records of the 1-3 new samples (materialised at the old file's k)
    pub samples: Vec<Vec<gen::Rec>>,
    /// rows of the old file that the first new sample also holds, with another middle base
    pub shared: Vec<(u16, u8)>,
    pub old_first: bool,
    /// delete some samples from the old file first (the rewritten file keeps its version stamp)
    pub delete: Option<u16>,
}

fn old_strategy() -> BoxedStrategy<OldCase> {
    (0u8..5)
        .prop_flat_map(|file| {
            let k = OLD_FILES[file as usize].1;
            (Just(file), proptest::collection::vec(proptest::collection::vec(gen::rec_strategy(k), 1..4), 1..4), proptest::collection::vec((any::<u16>(), 0u8..4), 0..6), any::<bool>(), prop_oneof![2 => Just(None), 1 => any::<u16>().prop_map(Some)])
        })
        .prop_map(|(file, samples, shared, old_first, delete)| OldCase { file, samples, shared, old_first, delete })
        .boxed()
}

fn check_old(c: &OldCase, ctx: &Ctx) -> Outcome {
    let (fname, k) = OLD_FILES[c.file as usize % 5];
    let root = std::path::PathBuf::from(std::env::var("VERIF_ROOT").unwrap_or_else(|_| "/verif".to_string()));
    let src = root.join("fixtures/old_skf").join(fname);
    let dir = ctx.case_dir();
    let r: Result<(bool, String), Outcome> = (|| {
        std::fs::copy(&src, dir.join("old.skf")).map_err(|e| Outcome::Infra(format!("{}: {e}", src.display())))?;
        let mut old = nk(ctx, &dir, "old.skf")?;
        let version = old.header.get("ska_version").cloned().unwrap_or_default();
        if old.header.get("k").map(|x| x.as_str()) != Some(&k.to_string()) || old.header.get("rc").map(|x| x.as_str()) != Some("true") {
            return Err(Outcome::Infra(format!("fixture {fname}: unexpected header {:?}", old.header)));
        }
        if let Some(d) = c.delete {
            let n = old.names.len();
            let keep = gen::idx(d, n);
            let gone: Vec<String> = old.names.iter().enumerate().filter(|(j, _)| n > 2 && j % 2 == 1 && *j != keep).map(|(_, x)| x.clone()).collect();
            if !gone.is_empty() {
                let mut args: Vec<&str> = vec!["delete", "-s", "old.skf"];
                args.extend(gone.iter().map(|x| x.as_str()));
                must_ok(&run_ska(ctx, &dir, &args), "ska delete on the old file")?;
                let expect = old.table().delete(&gone);
                old = nk(ctx, &dir, "old.skf")?;
                if old.table() != expect {
                    return Err(Outcome::Fail(format!("delete {gone:?} on {fname}: {}", table_diff(&old.table(), &expect))));
                }
            }
        }
        let t_old = old.table();
        let h = (k - 1) / 2;
        let mut new: Vec<Sample> = Vec::new();
        for (i, recs) in c.samples.iter().enumerate() {
            let mut rs = gen::materialise_recs(recs, k);
            if i == 0 {
                let keys: Vec<&Vec<u8>> = t_old.rows.keys().collect();
                for (sel, b) in &c.shared {
                    if keys.is_empty() {
                        break;
                    }
                    let a = keys[gen::idx(*sel, keys.len())];
                    let mut r = a[..h].to_vec();
                    r.push(model::BASES[*b as usize & 3]);
                    r.extend_from_slice(&a[h..]);
                    rs.push(r);
                }
            }
            if rs.iter().all(|x| model::windows(x, k).is_empty()) {
                rs.push(gen::filler(k, i));
            }
            new.push((format!("new{i}"), rs));
        }
        must_ok(&build(ctx, &dir, "new", &new, k, true, 1), "ska build of the new samples")?;
        let t_new = model_table(&new, k, true).1;
        let (args, expected) = if c.old_first { (vec!["merge", "old.skf", "new.skf", "-o", "m"], t_old.merge(&t_new)) } else { (vec!["merge", "new.skf", "old.skf", "-o", "m"], t_new.merge(&t_old)) };
        must_ok(&run_ska(ctx, &dir, &args), &format!("ska {} (old.skf = {fname}, written by ska {version})", args.join(" ")))?;
        let got = nk(ctx, &dir, "m.skf")?;
        model::compare_nk(&got, &expected, k, true, Some(k_bits_for(k))).map_err(|m| Outcome::Fail(format!("merge with {fname} (written by ska {version}): {m}")))?;
        let shared_rows = t_new.rows.keys().any(|a| t_old.rows.contains_key(a));
        Ok((shared_rows, version))
    })();
    ctx.done(&dir);
    match r {
        Err(Outcome::Fail(m)) => Outcome::Fail(format!("file={fname} k={k} old_first={} delete={:?}: {m}", c.old_first, c.delete)),
        Err(o) => o,
        Ok((shared_rows, version)) => {
            let mut cl: Vec<&'static str> = vec![match c.file % 5 { 0 => "merge.skf(k17)", 1 => "merge_k41.skf", 2 => "merge_k9.skf", 3 => "test_skalo.skf(k7)", _ => "test_skalo_indel.skf(k7)" }];
            cl.push(if version.starts_with("0.2") { "written_by_0.2.x" } else if version.starts_with("0.3") { "written_by_0.3.x" } else { "written_by_other" });
            if shared_rows { cl.push("rows_in_both_files"); }
            if c.delete.is_some() { cl.push("old_file_rewritten_by_delete_first"); }
            pass(shared_rows, key_of(&(c.file, &c.samples, &c.shared, c.old_first, c.delete)), cl)
        }
    }
}

const RULE: &str = "generated: 2-8 samples derived from common ancestors (SNPs, indels, N, substrings, reverse complements, private records), partitioned into 2-4 files, merged in a generated argument order, 40% nested (merge of a merged file); k over all values with extra weight on 29/31/33/35. Oracle: nk --full-info of the result == model column concatenation with '-' padding == nk of one joint ska build in the same sample order. Non-trivial: some k-mer absent from the whole first file and some absent from all later files; distinct by (k, strand, partition, nesting, sequences).";

fn stages(tier: Tier) -> Vec<Box<dyn Stage>> {
    vec![
        gen_stage_show("merge", RULE, tier.pick(1600, 20_000), 200, case_strategy, check, |c| {
            let (_a, s) = gen::materialise_set(&c.set);
            json!({"k": c.set.k, "two_strand": c.set.rc, "files": plan(c, s.len()), "nested": c.nested, "samples": s.iter().map(|(n, r)| json!({"name": n, "records": r.iter().map(|x| lossy(x)).collect::<Vec<_>>()})).collect::<Vec<_>>()})
        }),
        gen_stage_show("older_files", "generated: one of the five .skf files that the repository ships as test inputs (written by ska 0.2.0 and 0.3.11; k = 7, 9, 17, 41; copies under /verif/fixtures/old_skf), optionally rewritten by ska delete first, merged in either order with a file of 1-3 newly built samples whose first sample also holds some of the old file's split k-mers with a generated middle base. Oracle: nk --full-info of the result == (table of the old file as nk lists it) merged by the model with the model table of the new samples. Non-trivial: a split k-mer in both files.", tier.pick(300, 3000), 40, old_strategy, check_old, |c| json!({"old_file": OLD_FILES[c.file as usize % 5].0, "k": OLD_FILES[c.file as usize % 5].1, "new_samples": c.samples.len(), "old_first": c.old_first, "delete_first": c.delete.is_some()})),
        gen_stage_show("refuse", "generated: two files built with a different k (same or other integer width) or other strand mode, in either argument order; ska merge must exit non-zero and write no output. Every case non-trivial; distinct by (k, strand, k2, strand2, order).", tier.pick(320, 4000), 50, refuse_strategy, check_refuse, |c| json!({"k": c.set.k, "two_strand": c.set.rc, "kind": c.kind % 3, "bad_first": c.bad_first})),
    ]
}

pub fn def() -> PropDef {
    PropDef {
        id: "C07",
        level: "exploration",
        assumptions: &["sample names are distinct (merging files that share a sample name is outside the property)", "C01's model for what each part contains"],
        stages,
        post: None,
    }
}
