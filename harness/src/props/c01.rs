//! C01 — build yields exactly the split k-mers of the input, IUPAC-merged per k-mer.

use std::collections::BTreeMap;

use proptest::prelude::*;
use serde::{Deserialize, Serialize};

use super::common::*;
use super::PropDef;
use crate::cli::{self, run_ska};
use crate::engine::{gen_stage_show, key_of, pass, Ctx, Outcome, Stage, Tier};
use crate::gen::{self, Rec};
use crate::model::{self, SampleDict};

#[derive(Clone, Debug, Serialize, Deserialize)]
pub struct Case {
    pub k: usize,
    pub rc: bool,
    pub recs: Vec<Rec>,
    pub width: Option<u8>,
    /// Windows line endings
    #[serde(default)]
    pub crlf: bool,
}

pub fn case_strategy() -> BoxedStrategy<Case> {
    gen::k_strategy()
        .prop_flat_map(|k| {
            (
                Just(k),
                any::<bool>(),
                proptest::collection::vec(gen::rec_strategy(k), 1..5),
                prop_oneof![3 => Just(None), 1 => Just(Some(7u8)), 1 => Just(Some(60u8)), 1 => (1u8..80).prop_map(Some)],
                prop::bool::weighted(0.2),
            )
        })
        .prop_map(|(k, rc, recs, width, crlf)| Case { k, rc, recs, width, crlf })
        .boxed()
}

/// classification for the non-trivial rule
pub fn classify(case: &Case, seqs: &[Vec<u8>], dict: &SampleDict) -> (bool, Vec<&'static str>) {
    let k = case.k;
    let mut classes = Vec::new();
    if dict.is_empty() {
        classes.push("no_window(refusal)");
        return (false, classes);
    }
    let mut nt = false;
    if seqs.iter().any(|s| s.len() == k || s.len() == k + 1) {
        classes.push("record_len_k_or_k+1");
        nt = true;
    }
    if seqs.iter().any(|s| {
        s.iter().enumerate().any(|(i, b)| {
            (*b == b'N' || *b == b'n') && (i <= k + 1 || s.len() - i <= k + 2)
        })
    }) {
        classes.push("N_within_k+1_of_end");
        nt = true;
    }
    if dict.values().any(|m| m.count_ones() >= 2) {
        classes.push("multi_middle");
        nt = true;
    }
    if dict.values().any(|m| m.count_ones() >= 3) {
        classes.push("three_middles");
    }
    if case.rc
        && dict
            .keys()
            .any(|a| model::revcomp(a) == *a)
    {
        classes.push("self_rc");
        nt = true;
    }
    if seqs.len() >= 2 {
        classes.push("multi_record");
        nt = true;
    }
    if seqs.iter().any(|s| s.iter().any(|b| b.is_ascii_lowercase())) {
        classes.push("mixed_case");
        nt = true;
    }
    if k >= 33 {
        classes.push("k>=33");
        nt = true;
    }
    if case.crlf {
        classes.push("crlf_line_endings");
    }
    if case.rc {
        classes.push("two_strand");
    } else {
        classes.push("single_strand");
    }
    (nt, classes)
}

fn observed_dict<IntT>(path: &str, k: usize, rc: bool) -> Result<BTreeMap<Vec<u8>, u8>, String>
where
    IntT: for<'a> ska::ska_dict::bit_encoding::UInt<'a> + Into<u128>,
{
    use ska::ska_dict::SkaDict;
    use ska::{QualFilter, QualOpts};
    let q = QualOpts {
        min_count: 1,
        min_qual: 0,
        qual_filter: QualFilter::NoFilter,
    };
    let r = std::panic::catch_unwind(std::panic::AssertUnwindSafe(|| {
        SkaDict::<IntT>::new(k, 0, (path, None), "s", rc, &q, None)
    }));
    match r {
        Err(e) => {
            let msg = if let Some(s) = e.downcast_ref::<String>() {
                s.clone()
            } else if let Some(s) = e.downcast_ref::<&str>() {
                s.to_string()
            } else {
                "panic".into()
            };
            Err(msg)
        }
        Ok(d) => {
            let mut out = BTreeMap::new();
            if d.kmer_len() != k || d.rc() != rc {
                return Err(format!("PROP dictionary reports k={} rc={}", d.kmer_len(), d.rc()));
            }
            for (kmer, code) in d.kmers() {
                let x: u128 = (*kmer).into();
                if k < 64 && (x >> (2 * (k - 1))) != 0 {
                    return Err(format!("PROP stored k-mer {x:#x} has bits above 2(k-1)"));
                }
                out.insert(model::unpack_arms(x, k), *code);
            }
            if out.len() != d.ksize() {
                return Err("PROP ksize() differs from number of keys".to_string());
            }
            Ok(out)
        }
    }
}

pub fn compare_dict(model_d: &SampleDict, obs: &BTreeMap<Vec<u8>, u8>, what: &str) -> Result<(), String> {
    let exp: BTreeMap<Vec<u8>, u8> = model_d
        .iter()
        .map(|(a, m)| (a.clone(), model::code_of_mask(*m)))
        .collect();
    if &exp == obs {
        return Ok(());
    }
    let mut msg = format!("{what}: dictionary differs from the model:");
    let mut n = 0;
    for (a, c) in &exp {
        match obs.get(a) {
            None => {
                n += 1;
                if n <= 5 {
                    msg += &format!(" missing {}:{};", model::show_arms(a), *c as char);
                }
            }
            Some(o) if o != c => {
                n += 1;
                if n <= 5 {
                    msg += &format!(" {} stored {} expected {};", model::show_arms(a), *o as char, *c as char);
                }
            }
            _ => {}
        }
    }
    for (a, c) in obs {
        if !exp.contains_key(a) {
            n += 1;
            if n <= 8 {
                msg += &format!(" extra {}:{};", model::show_arms(a), *c as char);
            }
        }
    }
    Err(format!("{msg} ({n} differences, model has {} k-mers)", exp.len()))
}

fn check_inproc(case: &Case, ctx: &Ctx) -> Outcome {
    let seqs = gen::materialise_recs(&case.recs, case.k);
    let dict = model::build_sample(&seqs, case.k, case.rc);
    let dir = ctx.case_dir();
    let f = dir.join("in.fa");
    cli::write_fasta_auto(&f, &seqs, case.width.map(|w| w as usize));
    if case.crlf {
        cli::to_crlf(&f);
    }
    let path = cli::p(&f);
    let mut res: Result<(), String> = Ok(());
    let mut widths: Vec<&str> = vec!["u128"];
    if case.k <= 31 {
        widths.push("u64");
    }
    for w in widths {
        let obs = if w == "u64" {
            observed_dict::<u64>(&path, case.k, case.rc)
        } else {
            observed_dict::<u128>(&path, case.k, case.rc)
        };
        res = match obs {
            Err(m) if m.starts_with("PROP") => Err(format!("{w}: {m}")),
            Err(m) => {
                if dict.is_empty() && m.contains("no valid sequence") {
                    Ok(())
                } else if dict.is_empty() {
                    Err(format!("{w}: input without any window refused with unexpected message: {m}"))
                } else {
                    Err(format!(
                        "{w}: SkaDict::new panicked ({m}) although the input has {} split k-mers",
                        dict.len()
                    ))
                }
            }
            Ok(o) => {
                if dict.is_empty() {
                    Err(format!("{w}: input has no window of k valid bases but was accepted with {} k-mers", o.len()))
                } else {
                    compare_dict(&dict, &o, w)
                }
            }
        };
        if res.is_err() {
            break;
        }
    }
    ctx.done(&dir);
    match res {
        Err(m) => Outcome::Fail(format!(
            "k={} rc={} records={:?}: {m}",
            case.k,
            case.rc,
            seqs.iter().map(|s| lossy(s)).collect::<Vec<_>>()
        )),
        Ok(()) => {
            let (nt, classes) = classify(case, &seqs, &dict);
            pass(nt, key_of(&(case.k, case.rc, &seqs)), classes)
        }
    }
}

fn check_cli(case: &Case, ctx: &Ctx) -> Outcome {
    let mut seqs = gen::materialise_recs(&case.recs, case.k);
    // one case in six with >= 2 records: a record without any sequence (a header directly followed by the next
    // header) stands between the others; it holds nothing and the records behind it count as before
    if seqs.len() >= 2 && (seqs.len() + case.k / 2 + seqs[0].len()) % 6 == 1 {
        seqs.insert(1, Vec::new());
    }
    let dict = model::build_sample(&seqs, case.k, case.rc);
    let dir = ctx.case_dir();
    let f = dir.join("smp.fa");
    cli::write_fasta_auto(&f, &seqs, case.width.map(|w| w as usize));
    if case.crlf {
        cli::to_crlf(&f);
    }
    let ks = case.k.to_string();
    // In some cases (always for the default k = 17) the assembly is built from a list in which a read
    // pair stands next to it: the FASTA sample must come out exactly as on its own.
    let companion = !dict.is_empty() && (case.k == 17 || seqs.len() + case.k / 2 % 5 == 3);
    let mut reads: Vec<Vec<u8>> = vec![gen::filler(case.k + 6, 3), model::revcomp(&gen::filler(case.k + 4, 5))];
    // one companion read set in five holds an ultra-long read (more than 2^17 bases)
    if companion && (seqs.len() + case.k) % 5 == 2 {
        let mut x = (case.k as u64) << 20 | seqs.len() as u64 | 1;
        reads[0] = (0..131_072 + 500 + 37 * case.k).map(|_| { x = crate::engine::splitmix64(x); model::BASES[(x >> 30) as usize & 3] }).collect();
    }
    let mut reads_first = false;
    let mut args = if companion {
        cli::write_fastq(&dir.join("reads_1.fastq"), &[(reads[0].clone(), vec![b'I'; reads[0].len()])]);
        cli::write_fastq(&dir.join("reads_2.fastq"), &[(reads[1].clone(), vec![b'I'; reads[1].len()])]);
        // a third of these lists live in another directory, next to a different file that happens to have the
        // name of a list entry: entries are paths as the shell would read them (relative to the working directory)
        let elsewhere = (seqs.len() + case.k) % 3 == 0;
        let lp = if elsewhere { "lists/list.txt" } else { "list.txt" };
        if elsewhere {
            std::fs::create_dir_all(dir.join("lists")).unwrap();
            cli::write_fasta_auto(&dir.join("lists/smp.fa"), &[gen::filler(case.k + 9, 7)], None);
        }
        // the read pair may be listed first, and with a count threshold that its reads (each given twice) reach:
        // the threshold is about reads, every sample is what its own files say it is
        if seqs.len() % 2 == 0 {
            for (f, r) in [("reads_1.fastq", &reads[0]), ("reads_2.fastq", &reads[1])] {
                cli::write_fastq(&dir.join(f), &[(r.clone(), vec![b'I'; r.len()]), (r.clone(), vec![b'I'; r.len()])]);
            }
            std::fs::write(dir.join(lp), "reads\treads_1.fastq\treads_2.fastq\nsmp\tsmp.fa\n").unwrap();
            reads_first = true;
            vec!["build", "-o", "out", "-k", &ks, "-f", lp, "--min-count", "2", "--qual-filter", "no-filter"]
        } else {
            std::fs::write(dir.join(lp), "smp\tsmp.fa\nreads\treads_1.fastq\treads_2.fastq\n").unwrap();
            vec!["build", "-o", "out", "-k", &ks, "-f", lp, "--min-count", "1", "--qual-filter", "no-filter"]
        }
    } else if !dict.is_empty() && seqs.len() >= 2 && (case.k / 2 + seqs.len()) % 4 == 1 {
        // one sample whose records are spread over two FASTA files named on one list line
        // (chromosome.fa plus plasmids.fa of an isolate): the sample is the union of both files
        let cut = 1 + seqs.len() / 2;
        cli::write_fasta_auto(&dir.join("part_a.fa"), &seqs[..cut.min(seqs.len() - 1)], case.width.map(|w| w as usize));
        cli::write_fasta_auto(&dir.join("part_b.fa"), &seqs[cut.min(seqs.len() - 1)..], None);
        std::fs::write(dir.join("list2.txt"), "smp\tpart_a.fa\tpart_b.fa\n").unwrap();
        vec!["build", "-o", "out", "-k", &ks, "-f", "list2.txt"]
    } else {
        vec!["build", "-o", "out", "-k", &ks, "smp.fa"]
    };
    if !case.rc {
        args.push("--single-strand");
    }
    let o = run_ska(ctx, &dir, &args);
    let r: Result<(), Outcome> = (|| {
        if dict.is_empty() {
            must_refuse(&o, "build of an input without any window")?;
            if dir.join("out.skf").exists() {
                return Err(Outcome::Fail("refused build left an out.skf behind".into()));
            }
            return Ok(());
        }
        must_ok(&o, "ska build")?;
        let nk = nk(ctx, &dir, "out.skf")?;
        let t = if companion && reads_first {
            model::Table::from_samples(&["reads".to_string(), "smp".to_string()], &[model::build_sample(&reads, case.k, case.rc), dict.clone()])
        } else if companion {
            model::Table::from_samples(&["smp".to_string(), "reads".to_string()], &[dict.clone(), model::build_sample(&reads, case.k, case.rc)])
        } else {
            model::Table::from_samples(&["smp".to_string()], &[dict.clone()])
        };
        model::compare_nk(&nk, &t, case.k, case.rc, Some(k_bits_for(case.k))).map_err(Outcome::Fail)
    })();
    ctx.done(&dir);
    match r {
        Err(Outcome::Fail(m)) => Outcome::Fail(format!(
            "k={} rc={} records={:?}: {m}",
            case.k,
            case.rc,
            seqs.iter().map(|s| lossy(s)).collect::<Vec<_>>()
        )),
        Err(o) => o,
        Ok(()) => {
            let (nt, classes) = classify(case, &seqs, &dict);
            pass(nt, key_of(&(case.k, case.rc, &seqs)), classes)
        }
    }
}

const RULE: &str = "generated: k over all 30 valid values (boundary-weighted), strand mode, 1-4 records from op-scripts (random ACGT/AC, N runs, copies of earlier windows with a new middle base in either orientation, self-reverse-complement arms, poly-A, forced lengths k-1..k+2/2k/2k+1, an N planted k..k+2 before the end, case masks, line widths, Unix or Windows line endings); in the cli stage some assemblies (all with k = 17) are built from a list next to a read pair. Non-trivial: >=1 window and (record of length k or k+1, or N within k+1 of a record end, or a k-mer with >=2 middle bases, or a self-rc k-mer, or >=2 records, or mixed case, or k>=33). Distinct by (k, strand, record strings).";

pub fn show(case: &Case) -> serde_json::Value {
    let seqs = gen::materialise_recs(&case.recs, case.k);
    serde_json::json!({"k": case.k, "two_strand": case.rc, "line_width": case.width, "crlf": case.crlf,
        "records": seqs.iter().map(|s| lossy(s)).collect::<Vec<_>>()})
}

fn stages(tier: Tier) -> Vec<Box<dyn Stage>> {
    vec![
        gen_stage_show("inproc", RULE, tier.pick(32_000, 600_000), 2000, case_strategy, check_inproc, show),
        gen_stage_show("cli", RULE, tier.pick(4000, 60_000), 300, case_strategy, check_cli, show),
    ]
}

pub fn def() -> PropDef {
    PropDef {
        id: "C01",
        level: "exploration",
        assumptions: &[
            "needletail delivers FASTA records as written (parser trusted)",
            "input alphabet ACGTN in either case; other IUPAC letters in inputs are outside the property",
            "the reference model (harness/src/model.rs) is the documented semantics: windows of k valid bases, A<C<T<G arm order, IUPAC union",
        ],
        stages,
        post: None,
    }
}
