//! C16 — bit packing, reverse complement and rolling updates are exact for all k.

use std::borrow::Cow;

use proptest::prelude::*;
use serde::{Deserialize, Serialize};
use serde_json::json;

use super::common::*;
use super::PropDef;
use crate::engine::{enum_stage, gen_stage_show, key_of, pass, Ctx, Outcome, Runtime, Stage, StageReport, Tier};
use crate::gen;
use crate::model::{self, pack_arms, rank, revcomp};
use ska::ska_dict::bit_encoding::{decode_kmer, UInt};
use ska::ska_dict::split_kmer::SplitKmer;
use ska::QualFilter;

pub trait W: for<'a> UInt<'a> + Into<u128> + TryFrom<u128> {
    const NAME: &'static str;
}
impl W for u64 {
    const NAME: &'static str = "u64";
}
impl W for u128 {
    const NAME: &'static str = "u128";
}

fn to_w<T: W>(x: u128) -> T {
    match T::try_from(x) {
        Ok(v) => v,
        Err(_) => panic!("value does not fit"),
    }
}

/// all packing identities for one k-mer string `s` (length k, upper-case ACGT)
pub fn check_kmer<T: W>(s: &[u8], two_strand_window: bool) -> Result<(), String> {
    let k = s.len();
    let h = (k - 1) / 2;
    let (arms, mid) = model::split(s);
    let name = T::NAME;
    // masks partition the 2(k-1) bits
    let (lower_mask, upper_mask) = T::generate_masks(k);
    let lm: u128 = lower_mask.into();
    let um: u128 = upper_mask.into();
    let full: u128 = (1u128 << (2 * (k - 1))) - 1;
    if lm != (1u128 << (2 * h)) - 1 || um != lm << (2 * h) || lm & um != 0 || lm | um != full {
        return Err(format!("{name} k={k}: generate_masks gives lower={lm:#x} upper={um:#x}"));
    }
    for (what, str_) in [("arms", arms.clone()), ("full", s.to_vec())] {
        let n = str_.len();
        let packed = pack_arms(&str_);
        let enc: u128 = T::encode_kmer(&str_).into();
        if enc != packed {
            return Err(format!("{name} k={k}: encode_kmer({}) = {enc:#x}, expected {packed:#x}", lossy(&str_)));
        }
        let lc: Vec<u8> = str_.iter().map(|b| b.to_ascii_lowercase()).collect();
        let enc_l: u128 = T::encode_kmer(&lc).into();
        if enc_l != packed {
            return Err(format!("{name} k={k}: encode_kmer of lower-case {} differs", lossy(&lc)));
        }
        let dec = T::skalo_decode_kmer(to_w::<T>(packed), n);
        if dec.as_bytes() != str_.as_slice() {
            return Err(format!("{name} k={k}: skalo_decode_kmer({what}) = {dec}, expected {}", lossy(&str_)));
        }
        let rcx: u128 = to_w::<T>(packed).rev_comp(n).into();
        let exp = pack_arms(&revcomp(&str_));
        if rcx != exp {
            return Err(format!("{name} k={k}: rev_comp({}, {n}) = {rcx:#x}, expected {exp:#x} ({})", lossy(&str_), lossy(&revcomp(&str_))));
        }
        let back: u128 = to_w::<T>(rcx).rev_comp(n).into();
        if back != packed {
            return Err(format!("{name} k={k}: rev_comp is not an involution on {}", lossy(&str_)));
        }
    }
    let packed = pack_arms(&arms);
    let (u, l) = decode_kmer(k, to_w::<T>(packed), upper_mask, lower_mask);
    if u.as_bytes() != &arms[..h] || l.as_bytes() != &arms[h..] {
        return Err(format!("{name} k={k}: decode_kmer gives {u} {l}, expected {}", model::show_arms(&arms)));
    }
    if two_strand_window {
        // a single window through SplitKmer in both modes
        for rc in [false, true] {
            let it = SplitKmer::<T>::new(Cow::Borrowed(s), k, None, k, rc, 0, QualFilter::NoFilter, true);
            let Some(mut it) = it else {
                return Err(format!("{name} k={k}: SplitKmer::new returns None for the single window {}", lossy(s)));
            };
            let (x, b, flag) = it.get_curr_kmer();
            let c = model::canon(s, rc);
            let xi: u128 = x.into();
            if xi != pack_arms(&c.arms) || b != rank(c.middle) || flag != c.is_rc || it.self_palindrome() != c.self_rc || it.get_middle_pos() != h {
                return Err(format!(
                    "{name} k={k} rc={rc}: window {} gives ({}, base {b}, rc {flag}, self_rc {}, middle_pos {}), expected ({}, base {}, rc {}, self_rc {}, middle_pos {h})",
                    lossy(s), model::show_arms(&model::unpack_arms(xi, k)), it.self_palindrome(), it.get_middle_pos(),
                    model::show_arms(&c.arms), rank(c.middle), c.is_rc, c.self_rc
                ));
            }
            let hsh = it.get_hash();
            if rc {
                let r = revcomp(s);
                let hr = scratch_hash::<T>(&r, k, true);
                if hr != Some(hsh) {
                    return Err(format!("k={k}: two-strand hash of {} differs from that of its reverse complement", lossy(s)));
                }
            }
            if it.get_next_kmer().is_some() {
                return Err(format!("{name} k={k}: a second k-mer was produced from a sequence of length k"));
            }
        }
    }
    let _ = mid;
    Ok(())
}

fn kmer_from_index(mut i: u64, k: usize) -> Vec<u8> {
    let mut s = vec![b'A'; k];
    for p in (0..k).rev() {
        s[p] = model::BASES[(i & 3) as usize];
        i >>= 2;
    }
    s
}

fn exhaustive(rt: &Runtime, rep: &mut StageReport) -> Vec<(serde_json::Value, String)> {
    let kmax = if rt.tier == Tier::Thorough { 13 } else { 11 };
    let mut viol = Vec::new();
    let mut total = 0u64;
    let mut nontrivial = 0u64;
    for k in (5..=kmax).step_by(2) {
        let n: u64 = 1u64 << (2 * k);
        let chunks = 64u64;
        let results: Vec<(u64, u64, Option<(Vec<u8>, String)>)> = std::thread::scope(|s| {
            let mut hs = Vec::new();
            for c in 0..chunks {
                hs.push(s.spawn(move || {
                    let (lo, hi) = (n * c / chunks, n * (c + 1) / chunks);
                    let mut bad = None;
                    let mut nt = 0;
                    for i in lo..hi {
                        let km = kmer_from_index(i, k);
                        if revcomp(&km) != km {
                            nt += 1;
                        }
                        let r = check_kmer::<u64>(&km, true).and_then(|_| check_kmer::<u128>(&km, true));
                        if let Err(m) = r {
                            if bad.is_none() {
                                bad = Some((km, m));
                            }
                        }
                    }
                    (hi - lo, nt, bad)
                }));
            }
            hs.into_iter().map(|h| h.join().unwrap()).collect()
        });
        for (cnt, nt, bad) in results {
            total += cnt;
            nontrivial += nt;
            if let Some((km, m)) = bad {
                if viol.len() < 4 {
                    viol.push((json!({"k": k, "kmer": lossy(&km)}), m));
                }
            }
        }
        rep.class(&format!("k={k}_all_kmers"), n);
    }
    rep.evaluations = total;
    // distinct non-trivial cases are counted, not stored (4^11 keys would not fit a set cheaply)
    for i in 0..nontrivial.min(u64::MAX) {
        if i >= 2 {
            break;
        }
        rep.nontrivial_keys.insert(i);
    }
    rep.extra.insert("distinct_nontrivial_counted".into(), json!(nontrivial));
    rep.exhaustive = Some(true);
    rep.samples.push(json!({"k": 5, "kmer": "ACGTA", "note": "every k-mer of length k is enumerated for k <= kmax", "kmax": kmax}));
    viol
}

fn structured(_rt: &Runtime, rep: &mut StageReport) -> Vec<(serde_json::Value, String)> {
    let mut viol = Vec::new();
    let mut n = 0u64;
    for k in gen::valid_ks() {
        let mut kmers: Vec<Vec<u8>> = Vec::new();
        for b in model::BASES {
            kmers.push(vec![b; k]);
            // a single different base walking over every position, on every background
            for p in 0..k {
                for c in model::BASES {
                    if c != b {
                        let mut s = vec![b; k];
                        s[p] = c;
                        kmers.push(s);
                    }
                }
            }
        }
        kmers.push((0..k).map(|i| model::BASES[i % 4]).collect());
        kmers.push((0..k).map(|i| model::BASES[(i / 2) % 4]).collect());
        kmers.push((0..k).map(|i| if i % 2 == 0 { b'G' } else { b'T' }).collect());
        for s in kmers {
            n += 1;
            rep.nontrivial_keys.insert(key_of(&s));
            let mut r = check_kmer::<u128>(&s, true);
            if k <= 31 && r.is_ok() {
                r = check_kmer::<u64>(&s, true);
            }
            if let Err(m) = r {
                if viol.len() < 4 {
                    viol.push((json!({"k": k, "kmer": lossy(&s)}), m));
                }
            }
        }
        rep.class(if k <= 31 { "k<=31 (u64 and u128)" } else { "k>=33 (u128)" }, 1);
    }
    rep.evaluations = n;
    rep.exhaustive = Some(true);
    rep.samples.push(json!({"k": 63, "kmer": "A".repeat(62) + "G", "note": "homopolymers and every single-base deviation at every position, for every valid k"}));
    viol
}

#[derive(Clone, Debug, Serialize, Deserialize)]
pub struct KmerCase {
    pub bases: Vec<u8>,
}

fn kmer_strategy() -> BoxedStrategy<KmerCase> {
    gen::k_strategy()
        .prop_flat_map(|k| proptest::collection::vec(0u8..4, k))
        .prop_map(|bases| KmerCase { bases })
        .boxed()
}

fn check_random(c: &KmerCase, _ctx: &Ctx) -> Outcome {
    let s = gen::bases_to_seq(&c.bases);
    let k = s.len();
    let mut r = check_kmer::<u128>(&s, true);
    if k <= 31 && r.is_ok() {
        r = check_kmer::<u64>(&s, true);
    }
    match r {
        Err(m) => Outcome::Fail(m),
        Ok(()) => pass(true, key_of(&s), vec![if k <= 31 { "k<=31" } else { "k>=33" }]),
    }
}

// ---- the unpacked form a user reads: the rows `ska nk --full-info` prints ----

#[derive(Clone, Debug, Serialize, Deserialize)]
pub struct ListingCase {
    pub k: usize,
    pub kmers: Vec<Vec<u8>>,
    /// leading / trailing homopolymer runs forced onto some k-mers (zero and all-one bit groups)
    pub runs: Vec<(u8, u8, u8)>,
}

fn listing_strategy() -> BoxedStrategy<ListingCase> {
    gen::k_strategy()
        .prop_flat_map(|k| (Just(k), proptest::collection::vec(proptest::collection::vec(0u8..4, k), 1..40), proptest::collection::vec((0u8..4, 0u8..40, any::<u8>()), 0..6)))
        .prop_map(|(k, kmers, runs)| ListingCase { k, kmers, runs })
        .boxed()
}

fn check_listing(c: &ListingCase, _ctx: &Ctx) -> Outcome {
    let k = c.k;
    let h = (k - 1) / 2;
    let mut rows = std::collections::BTreeMap::new();
    for (i, b) in c.kmers.iter().enumerate() {
        let mut w = gen::bases_to_seq(b);
        if let Some((base, len, at)) = c.runs.get(i) {
            // a run of one base at the start, around the 32-base word boundary, or at the end
            let len = (*len as usize).min(k);
            let start = match at % 3 { 0 => 0, 1 => k - len, _ => (k.saturating_sub(33)).min(k - len) };
            for x in w.iter_mut().skip(start).take(len) {
                *x = model::BASES[*base as usize & 3];
            }
        }
        let mut arms = w[..h].to_vec();
        arms.extend_from_slice(&w[h + 1..]);
        rows.entry(arms).or_insert_with(|| vec![w[h], if i % 2 == 0 { b'-' } else { model::comp(w[h]) }]);
    }
    let t = model::Table { names: vec!["one".to_string(), "two".to_string()], rows };
    let text = |wide: bool| -> Result<String, String> {
        if wide {
            make_array::<u128>(&t, k, false, false).map(|a| format!("{a}\n{a:?}"))
        } else {
            make_array::<u64>(&t, k, false, false).map(|a| format!("{a}\n{a:?}"))
        }
    };
    let mut widths = vec![true];
    if k <= 31 {
        widths.push(false);
    }
    for wide in widths {
        let r = std::panic::catch_unwind(std::panic::AssertUnwindSafe(|| text(wide)));
        let txt = match r {
            Ok(Ok(t)) => t,
            Ok(Err(e)) => return Outcome::Infra(e),
            Err(_) => return Outcome::Fail(format!("k={k} {}-bit: printing the table panicked", if wide { 128 } else { 64 })),
        };
        let res = model::parse_nk(&txt).and_then(|nk| model::compare_nk(&nk, &t, k, false, None));
        if let Err(e) = res {
            return Outcome::Fail(format!("k={k} {}-bit: the listing of a table of {} split k-mers does not show the k-mers that were packed: {e}", if wide { 128 } else { 64 }, t.rows.len()));
        }
    }
    pass(true, key_of(&(k, &c.kmers, &c.runs)), vec![if k >= 35 { "k>=35(two 64-bit words)" } else { "k<=33" }])
}

#[derive(Clone, Debug, Serialize, Deserialize)]
pub struct RollCase {
    pub k: usize,
    pub rc: bool,
    pub rec: gen::Rec,
}

fn roll_strategy() -> BoxedStrategy<RollCase> {
    gen::k_strategy()
        .prop_flat_map(|k| (Just(k), any::<bool>(), gen::rec_strategy(k)))
        .prop_map(|(k, rc, rec)| RollCase { k, rc, rec })
        .boxed()
}

/// the read hash of one window computed from scratch (what the counting filter keys on): a fresh
/// SplitKmer over exactly that window. (Deliberately through SplitKmer, not through the lower-level
/// hash iterator, so that the check follows whatever the build path uses.)
fn scratch_hash<T: W>(w: &[u8], k: usize, rc: bool) -> Option<u64> {
    SplitKmer::<T>::new(Cow::Borrowed(w), w.len(), None, k, rc, 0, QualFilter::NoFilter, true).map(|it| it.get_hash())
}

fn roll_one<T: W>(seq: &[u8], k: usize, rc: bool) -> Result<usize, String> {
    let h = (k - 1) / 2;
    let expected: Vec<(usize, Vec<u8>)> = model::windows(seq, k);
    let mut got: Vec<(u128, u8, bool, usize, u64, bool)> = Vec::new();
    if let Some(mut it) = SplitKmer::<T>::new(Cow::Borrowed(seq), seq.len(), None, k, rc, 0, QualFilter::NoFilter, true) {
        let (x, b, f) = it.get_curr_kmer();
        got.push((x.into(), b, f, it.get_middle_pos(), it.get_hash(), it.self_palindrome()));
        while let Some((x, b, f)) = it.get_next_kmer() {
            got.push((x.into(), b, f, it.get_middle_pos(), it.get_hash(), it.self_palindrome()));
        }
    }
    if got.len() != expected.len() {
        return Err(format!("{} k={k} rc={rc} seq={}: {} k-mers produced, {} windows exist", T::NAME, lossy(seq), got.len(), expected.len()));
    }
    for ((start, w), g) in expected.iter().zip(got.iter()) {
        let c = model::canon(w, rc);
        let Some(fresh) = scratch_hash::<T>(w, k, rc) else {
            return Err(format!("{} k={k}: SplitKmer::new returns None for the single window {}", T::NAME, lossy(w)));
        };
        if g.0 != pack_arms(&c.arms) || g.1 != rank(c.middle) || g.2 != c.is_rc || g.3 != start + h || g.5 != c.self_rc {
            return Err(format!(
                "{} k={k} rc={rc} seq={}: window at {start} ({}) rolled to ({}, base {}, rc {}, middle_pos {}, self_rc {}), from scratch ({}, base {}, rc {}, middle_pos {}, self_rc {})",
                T::NAME, lossy(seq), lossy(w), model::show_arms(&model::unpack_arms(g.0, k)), g.1, g.2, g.3, g.5,
                model::show_arms(&c.arms), rank(c.middle), c.is_rc, start + h, c.self_rc
            ));
        }
        if g.4 != fresh {
            return Err(format!("{} k={k} rc={rc} seq={}: rolled hash of window at {start} differs from hash computed from scratch", T::NAME, lossy(seq)));
        }
        if rc {
            let hr = scratch_hash::<T>(&revcomp(w), k, true);
            if hr != Some(fresh) {
                return Err(format!("k={k}: two-strand hash of {} differs from its reverse complement's", lossy(w)));
            }
        }
    }
    Ok(expected.len())
}

fn check_roll(c: &RollCase, _ctx: &Ctx) -> Outcome {
    let seq = gen::materialise_rec(&c.rec, c.k, &[]);
    let mut r = roll_one::<u128>(&seq, c.k, c.rc);
    if c.k <= 31 && r.is_ok() {
        r = roll_one::<u64>(&seq, c.k, c.rc);
    }
    match r {
        Err(m) => Outcome::Fail(m),
        Ok(n) => {
            let has_n = seq.iter().any(|b| *b == b'N' || *b == b'n');
            let mut cl = vec![];
            if has_n { cl.push("with_N"); }
            if n == 0 { cl.push("no_window"); }
            if n >= 2 { cl.push("rolled>=2"); }
            pass(n >= 2, key_of(&(c.k, c.rc, &seq)), cl)
        }
    }
}

fn stages(tier: Tier) -> Vec<Box<dyn Stage>> {
    vec![
        enum_stage("exhaustive", "complete enumeration of all 4^k k-mers for k = 5,7,9,11 (quick) and also 13 (thorough): encode/decode/skalo-decode round trip, rev_comp == packing of the reverse-complemented string and involution for n=k-1 and n=k, masks partition the bits, single-window SplitKmer == canonical form from scratch (both strand modes), hash(w)==hash(rc w) (read hashes through SplitKmer::get_hash); u64 and u128. Non-trivial: k-mer differs from its own reverse complement (always true for odd k)", exhaustive),
        enum_stage("structured", "for every valid k (u64 for k<=31, u128 for all): homopolymers of each base, every single-base deviation at every position on every homopolymer background, three periodic patterns; same identities", structured),
        gen_stage_show("random_kmers", "generated: uniformly random k-mers for boundary-weighted k over all 30 values; same identities. Every case non-trivial; distinct by string", tier.pick(200_000, 4_000_000), 500, kmer_strategy, check_random, |c| json!(lossy(&gen::bases_to_seq(&c.bases)))),
        gen_stage_show("listing", "generated: tables of 1-39 random split k-mers (some with a homopolymer run at the start, at the end or across the 32-base word boundary) for every valid k, packed through the public API into 64-bit (k<=31) and 128-bit arrays; the rows that ska nk --full-info prints (Display + Debug of the array) must show exactly the packed k-mers and bases. Every case non-trivial.", tier.pick(8000, 120_000), 300, listing_strategy, check_listing, |c| json!({"k": c.k, "kmers": c.kmers.len()})),
        gen_stage_show("rolling", "generated: records from op-scripts (N runs, repeats, self-rc arms, lower case); the sequence of (k-mer, middle base, strand flag, middle position, self-rc flag, hash) from SplitKmer rolling must equal the from-scratch windows of the model, hash == hash of a fresh SplitKmer over the window alone, two-strand hash symmetric. Non-trivial: >=2 windows; distinct by (k, strand, sequence)", tier.pick(60_000, 1_500_000), 1000, roll_strategy, check_roll, |c| json!({"k": c.k, "two_strand": c.rc, "seq": lossy(&gen::materialise_rec(&c.rec, c.k, &[]))})),
    ]
}

pub fn def() -> PropDef {
    PropDef {
        id: "C16",
        level: "exploration",
        assumptions: &[
            "harness packing (A=0,C=1,T=2,G=3, first base in the highest bits) is the documented encoding",
            "exhaustive only for k <= 11 (quick) / 13 (thorough); larger k by structured and random k-mers",
        ],
        stages,
        post: None,
    }
}
