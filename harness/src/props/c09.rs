//! C09 — .skf persistence is lossless and independent of the integer width chosen.

use proptest::prelude::*;
use serde::{Deserialize, Serialize};
use serde_json::json;

use super::c06::{self, Flags};
use super::common::*;
use super::PropDef;
use crate::cli::{self, run_ska};
use crate::engine::{gen_stage_show, key_of, pass, Ctx, Outcome, Stage, Tier};
use crate::gen::{self, SetCase};
use crate::model::{self, Table};
use ska::merge_ska_array::MergeSkaArray;
use ska::ska_dict::bit_encoding::UInt;

#[derive(Clone, Debug, Serialize, Deserialize)]
pub struct Case {
    pub set: SetCase,
    /// 0 ordinary, 1 every k-mer fits 64 bits (k>=35), 2 mixture
    pub class: u8,
    /// tails for class 1/2 records: (extra length j 0..3, 33+ bases)
    pub fit_tails: Vec<(u8, Vec<u8>)>,
    pub flags: Flags,
    pub freq: Freq,
    pub del: u16,
    pub empty: bool,
}

fn case_strategy() -> BoxedStrategy<Case> {
    let k = prop_oneof![3 => (0usize..30).prop_map(|i| 5 + 2 * i), 2 => prop::sample::select(vec![31usize, 33, 35, 37, 63])];
    k.prop_flat_map(|k| {
        (
            gen::set_strategy_k(k, 1, 4),
            if k >= 35 { prop_oneof![2 => Just(0u8), 3 => Just(1u8), 2 => Just(2u8)].boxed() } else { Just(0u8).boxed() },
            proptest::collection::vec((0u8..4, proptest::collection::vec(0u8..4, 33..=33)), 1..4),
            c06::flags_strategy(),
            freq_strategy(),
            any::<u16>(),
            prop::bool::weighted(0.08),
        )
    })
    .prop_map(|(set, class, fit_tails, flags, freq, del, empty)| Case { set, class, fit_tails, flags, freq, del, empty })
    .boxed()
}

/// records whose stored k-mers all start with >= k-33 A's
fn fit_records(k: usize, tails: &[(u8, Vec<u8>)]) -> Vec<Vec<u8>> {
    tails
        .iter()
        .map(|(j, t)| {
            let mut r = vec![b'A'; k - 33 + *j as usize];
            r.extend(gen::bases_to_seq(t));
            r
        })
        .collect()
}

pub fn materialise(c: &Case) -> Vec<Sample> {
    let (_a, mut samples) = gen::materialise_set(&c.set);
    let k = c.set.k;
    if k >= 35 {
        match c.class {
            1 => {
                for (i, s) in samples.iter_mut().enumerate() {
                    let mut tails = c.fit_tails.clone();
                    tails.rotate_left(i % c.fit_tails.len());
                    s.1 = fit_records(k, &tails);
                }
            }
            2 => {
                // first sample fits, the rest ordinary (or the other way round)
                let n = samples.len();
                let which = (c.del as usize) % n;
                samples[which].1 = fit_records(k, &c.fit_tails);
            }
            _ => {}
        }
    }
    samples
}

fn fits64(t: &Table, k: usize) -> bool {
    k >= 33 && t.rows.keys().all(|a| a[..k - 33].iter().all(|b| *b == b'A'))
}

/// the CLI's dispatch: try 64 bits first, then 128. Returns (width used, table, Display, Debug)
fn dispatch_load(path: &str) -> Result<(u32, Table, String, String, usize, bool), String> {
    if let Ok(a) = MergeSkaArray::<u64>::load(path) {
        let t = array_table(&a)?;
        return Ok((64, t, format!("{a}"), format!("{a:?}"), a.kmer_len(), a.rc()));
    }
    match MergeSkaArray::<u128>::load(path) {
        Ok(a) => {
            let t = array_table(&a)?;
            Ok((128, t, format!("{a}"), format!("{a:?}"), a.kmer_len(), a.rc()))
        }
        Err(e) => Err(format!("neither width loads the file: {e}")),
    }
}

fn ops_on<IntT>(arr_of: &dyn Fn() -> Result<MergeSkaArray<IntT>, String>, c: &Case, n: usize, dir: &std::path::Path, tag: &str, weed_fa: &str) -> Result<Vec<Vec<u8>>, String>
where
    IntT: for<'a> UInt<'a> + Into<u128> + TryFrom<u128>,
{
    let mut outs: Vec<Vec<u8>> = Vec::new();
    // align
    let mut a = arr_of()?;
    ska::generic_modes::apply_filters(&mut a, c.flags.freq.value(n), c.flags.ambig_as_missing, &c.flags.kind.lib(), c.flags.ambig_mask, c.flags.no_gap_only);
    let mut buf = Vec::new();
    a.write_fasta(&mut buf).map_err(|e| e.to_string())?;
    outs.push(buf);
    // distance
    let mut a = arr_of()?;
    let dpath = dir.join(format!("{tag}_dist.txt"));
    ska::generic_modes::distance(&mut a, &Some(cli::p(&dpath)), c.freq.value(n), true, 1);
    outs.push(std::fs::read(&dpath).map_err(|e| e.to_string())?);
    // delete
    if n >= 2 {
        let mut a = arr_of()?;
        let name = a.names()[gen::idx(c.del, n)].clone();
        a.delete_samples(&[name.as_str()]);
        let t = array_table(&a)?;
        outs.push(format!("{:?}", t).into_bytes());
    }
    // weed
    let mut a = arr_of()?;
    let wref = ska::ska_ref::RefSka::<IntT>::new(a.kmer_len(), weed_fa, a.rc(), false, false);
    a.weed(&wref, false);
    let t = array_table(&a)?;
    outs.push(format!("{:?}", t).into_bytes());
    Ok(outs)
}

fn roundtrip<IntT>(c: &Case, samples: &[Sample], dir: &std::path::Path) -> Result<(), String>
where
    IntT: for<'a> UInt<'a> + Into<u128> + TryFrom<u128>,
{
    use ska::merge_ska_dict::{build_and_merge, InputFastx};
    use ska::{QualFilter, QualOpts};
    let (k, rc) = (c.set.k, c.set.rc);
    let mut input: Vec<InputFastx> = Vec::new();
    for (i, (name, recs)) in samples.iter().enumerate() {
        let f = dir.join(format!("in{i}.fa"));
        cli::write_fasta_auto(&f, recs, None);
        input.push((name.clone(), cli::p(&f), None));
    }
    let q = QualOpts { min_count: 1, min_qual: 0, qual_filter: QualFilter::NoFilter };
    let dict = build_and_merge::<IntT>(&input, k, rc, &q, 1, None);
    let mem = || -> Result<MergeSkaArray<IntT>, String> {
        let mut a = MergeSkaArray::new(&dict);
        if c.empty {
            // empty the table the way `ska weed --filter no-ambig --min-freq 1` can: an impossible threshold
            a.filter(samples.len() + 1, false, &ska::cli::FilterType::NoFilter, false, false, true);
        }
        Ok(a)
    };
    let arr = mem()?;
    let mem_table = array_table(&arr)?;
    let (_d, model_t) = model_table(samples, k, rc);
    if !c.empty && mem_table != model_t {
        return Err(format!("in-memory array differs from the model: {}", table_diff(&mem_table, &model_t)));
    }
    let path = cli::p(&dir.join("saved.skf"));
    arr.save(&path).map_err(|e| format!("save failed: {e}"))?;
    let (width, t2, disp, dbg, k2, rc2) = dispatch_load(&path)?;
    if width != IntT::n_bits() {
        return Err(format!("file written with {}-bit k-mers is read back as {width}-bit by the 64-then-128 dispatch", IntT::n_bits()));
    }
    if k2 != k || rc2 != rc {
        return Err(format!("reloaded k={k2} rc={rc2}, saved k={k} rc={rc}"));
    }
    if t2 != mem_table {
        return Err(format!("reloaded content differs: {}", table_diff(&t2, &mem_table)));
    }
    if disp != format!("{arr}") || dbg != format!("{arr:?}") {
        return Err("nk text (Display/Debug) of the reloaded array differs from the in-memory array".to_string());
    }
    if !disp.contains(&format!("k_bits={}", IntT::n_bits())) {
        return Err(format!("k_bits not reported as {}: {disp}", IntT::n_bits()));
    }
    if c.empty {
        return Ok(());
    }
    // every operation: same result on the reloaded array as on the in-memory data
    let n = samples.len();
    let weed_fa = cli::p(&dir.join("in0.fa"));
    let reload = || -> Result<MergeSkaArray<IntT>, String> { MergeSkaArray::<IntT>::load(&path).map_err(|e| e.to_string()) };
    let o1 = ops_on::<IntT>(&mem, c, n, dir, "mem", &weed_fa)?;
    let o2 = ops_on::<IntT>(&reload, c, n, dir, "load", &weed_fa)?;
    for (i, (a, b)) in o1.iter().zip(o2.iter()).enumerate() {
        if a != b {
            let what = ["align", "distance", "delete", "weed"][i.min(3)];
            return Err(format!("{what}: result on the reloaded file differs from the in-memory result: {} vs {}", crate::engine::truncate(&lossy(a), 200), crate::engine::truncate(&lossy(b), 200)));
        }
    }
    Ok(())
}

fn check_inproc(c: &Case, ctx: &Ctx) -> Outcome {
    let samples = materialise(c);
    let k = c.set.k;
    let dir = ctx.case_dir();
    let r = std::panic::catch_unwind(std::panic::AssertUnwindSafe(|| {
        if k <= 31 {
            roundtrip::<u64>(c, &samples, &dir)
        } else {
            roundtrip::<u128>(c, &samples, &dir)
        }
    }));
    ctx.done(&dir);
    let (_d, t) = model_table(&samples, k, c.set.rc);
    match r {
        Err(e) => Outcome::Fail(format!("k={k} rc={} samples={}: panic: {}", c.set.rc, show_samples(&samples), panic_msg(&e))),
        Ok(Err(m)) => Outcome::Fail(format!("k={k} rc={} samples={}: {m}", c.set.rc, show_samples(&samples))),
        Ok(Ok(())) => classify(c, &t, &samples),
    }
}

fn classify(c: &Case, t: &Table, samples: &[Sample]) -> Outcome {
    let k = c.set.k;
    let mut cl = vec![];
    let f = fits64(t, k);
    if f && k >= 35 { cl.push("k>=35_fits_64_bits"); }
    if k >= 35 && c.class == 2 { cl.push("mixture"); }
    if k == 33 { cl.push("k=33(always fits 64 bits)"); }
    if matches!(k, 31 | 33 | 35) { cl.push("k_in_31_33_35"); }
    if c.empty { cl.push("empty_table"); }
    if k <= 31 { cl.push("64bit"); } else { cl.push("128bit"); }
    pass((f && k >= 35) || c.class == 2 && k >= 35 || matches!(k, 31 | 33 | 35) || c.empty, key_of(&(k, c.set.rc, c.empty, samples)), cl)
}

fn check_cli(c: &Case, ctx: &Ctx) -> Outcome {
    let samples = materialise(c);
    let (k, rc) = (c.set.k, c.set.rc);
    let (_d, t) = model_table(&samples, k, rc);
    let dir = ctx.case_dir();
    let r: Result<(), Outcome> = (|| {
        // every third case saves under a prefix that contains a dot of its own
        if k % 3 == 0 {
            must_ok(&build(ctx, &dir, "x.v2", &samples, k, rc, 1), "ska build -o x.v2")?;
            std::fs::rename(dir.join("x.v2.skf"), dir.join("x.skf")).map_err(|e| Outcome::Fail(format!("ska build -o x.v2 did not write x.v2.skf: {e}")))?;
        } else {
            must_ok(&build(ctx, &dir, "x", &samples, k, rc, 1), "ska build")?;
        }
        let got = nk(ctx, &dir, "x.skf")?;
        model::compare_nk(&got, &t, k, rc, Some(k_bits_for(k))).map_err(|m| Outcome::Fail(format!("nk of the saved file: {m}")))?;
        // an ordinary second file with the same k (never fits 64 bits for k>=35: starts with G)
        let other: Vec<Sample> = vec![("other".to_string(), vec![{
            let mut r = vec![b'G'; 3];
            r.extend(gen::filler(k, 5));
            r
        }])];
        must_ok(&build(ctx, &dir, "o", &other, k, rc, 1), "ska build (other)")?;
        let (_d2, to) = model_table(&other, k, rc);
        // merge in both orders
        must_ok(&run_ska(ctx, &dir, &["merge", "x.skf", "o.skf", "-o", "xo"]), "ska merge x o")?;
        must_ok(&run_ska(ctx, &dir, &["merge", "o.skf", "x.skf", "-o", "ox"]), "ska merge o x")?;
        let xo = nk(ctx, &dir, "xo.skf")?;
        let ox = nk(ctx, &dir, "ox.skf")?;
        model::compare_nk(&xo, &t.merge(&to), k, rc, Some(k_bits_for(k))).map_err(|m| Outcome::Fail(format!("merge x o: {m}")))?;
        model::compare_nk(&ox, &to.merge(&t), k, rc, Some(k_bits_for(k))).map_err(|m| Outcome::Fail(format!("merge o x: {m}")))?;
        // adding to a collection with the collection as second argument: the output names a later input
        std::fs::copy(dir.join("x.skf"), dir.join("acc.skf")).map_err(|e| Outcome::Infra(e.to_string()))?;
        must_ok(&run_ska(ctx, &dir, &["merge", "o.skf", "acc.skf", "-o", "acc"]), "ska merge o.skf acc.skf -o acc")?;
        model::compare_nk(&nk(ctx, &dir, "acc.skf")?, &to.merge(&t), k, rc, Some(k_bits_for(k))).map_err(|m| Outcome::Fail(format!("merge o acc -o acc (output is also the second input): {m}")))?;
        // three files, the outer two sharing k-mers that the middle one lacks: any order gives the model's table
        // (in half of the cases under the very same name: names are labels, columns are positional)
        let third: Vec<Sample> = vec![(if k % 4 == 1 { samples[0].0.clone() } else { "again".to_string() }, samples[0].1.clone())];
        must_ok(&build(ctx, &dir, "z", &third, k, rc, 1), "ska build (third file: the first sample under another name)")?;
        let (_d3, tz) = model_table(&third, k, rc);
        for (order, out) in [(["x.skf", "o.skf", "z.skf"], "xoz"), (["z.skf", "o.skf", "x.skf"], "zox"), (["o.skf", "z.skf", "x.skf"], "ozx")] {
            must_ok(&run_ska(ctx, &dir, &["merge", order[0], order[1], order[2], "-o", out]), &format!("ska merge {order:?}"))?;
            let tab = |f: &str| match f { "x.skf" => &t, "o.skf" => &to, _ => &tz };
            let exp = tab(order[0]).merge(tab(order[1])).merge(tab(order[2]));
            model::compare_nk(&nk(ctx, &dir, &format!("{out}.skf"))?, &exp, k, rc, Some(k_bits_for(k))).map_err(|m| Outcome::Fail(format!("merge {order:?}: {m}")))?;
        }
        // a square table (as many split k-mers as samples: n samples sharing one contig of k+n-1 bases), weeded by
        // its first window: one row less, every sample still there
        {
            let nq = 2 + k % 5;
            let mut seen = std::collections::HashSet::new();
            if let Some(contig) = gen::unique_seq(&gen::filler(k + 9, k), k + nq - 1, k, true, &mut seen) {
                let sq: Vec<Sample> = (0..nq).map(|j| (format!("q{j}"), vec![contig.clone()])).collect();
                let tq = model_table(&sq, k, rc).1;
                if tq.rows.len() == nq {
                    must_ok(&build(ctx, &dir, "sq", &sq, k, rc, 1), "ska build (square table)")?;
                    cli::write_fasta_auto(&dir.join("sqw.fa"), &[contig[..k].to_vec()], None);
                    must_ok(&run_ska(ctx, &dir, &["weed", "sq.skf", "sqw.fa", "--min-freq", "0", "-o", "sqw.skf"]), "ska weed on a table with as many k-mers as samples")?;
                    let wq = model::build_sample(&[contig[..k].to_vec()], k, rc).keys().cloned().collect();
                    model::compare_nk(&nk(ctx, &dir, "sqw.skf")?, &tq.weed(&wq, false), k, rc, Some(k_bits_for(k))).map_err(|m| Outcome::Fail(format!("weed on a {nq} x {nq} table: {m}")))?;
                }
            }
        }
        // names derived from file names given on the command line may hold blanks ("strain A.fa"): they are kept as
        // they are through save, reload and merge
        if k % 3 != 1 {
            cli::write_fasta_auto(&dir.join("strain A.fa"), &samples[0].1, None);
            cli::write_fasta_auto(&dir.join("iso B 2.fasta"), &other[0].1, None);
            let ks = k.to_string();
            let mut args: Vec<&str> = vec!["build", "-o", "sp", "-k", &ks, "strain A.fa", "iso B 2.fasta"];
            if !rc {
                args.push("--single-strand");
            }
            must_ok(&run_ska(ctx, &dir, &args), "ska build \"strain A.fa\" \"iso B 2.fasta\"")?;
            let sp: Vec<Sample> = vec![("strain A".to_string(), samples[0].1.clone()), ("iso B 2".to_string(), other[0].1.clone())];
            let tsp = model_table(&sp, k, rc).1;
            model::compare_nk(&nk(ctx, &dir, "sp.skf")?, &tsp, k, rc, Some(k_bits_for(k))).map_err(|m| Outcome::Fail(format!("build from files with blanks in their names: {m}")))?;
            must_ok(&run_ska(ctx, &dir, &["merge", "sp.skf", "z.skf", "-o", "spz"]), "ska merge sp.skf z.skf")?;
            model::compare_nk(&nk(ctx, &dir, "spz.skf")?, &tsp.merge(&tz), k, rc, Some(k_bits_for(k))).map_err(|m| Outcome::Fail(format!("merge of a file whose sample names hold blanks: {m}")))?;
            must_ok(&run_ska(ctx, &dir, &["delete", "-s", "spz.skf", "strain A"]), "ska delete -s spz.skf \"strain A\"")?;
            model::compare_nk(&nk(ctx, &dir, "spz.skf")?, &tsp.merge(&tz).delete(&["strain A".to_string()]), k, rc, Some(k_bits_for(k))).map_err(|m| Outcome::Fail(format!("delete of a sample whose name holds a blank: {m}")))?;
        }
        // the same three tables as files of one name in three directories (batch1/run.skf, batch2/run.skf, ...)
        {
            for (d, f) in [("batch1", "x.skf"), ("batch2", "o.skf"), ("batch3", "z.skf")] {
                std::fs::create_dir_all(dir.join(d)).map_err(|e| Outcome::Infra(e.to_string()))?;
                std::fs::copy(dir.join(f), dir.join(d).join("run.skf")).map_err(|e| Outcome::Infra(e.to_string()))?;
            }
            let (args, exp): (Vec<&str>, Table) = if k % 4 < 2 { (vec!["merge", "batch1/run.skf", "batch2/run.skf", "batch3/run.skf", "-o", "batches"], t.merge(&to).merge(&tz)) } else { (vec!["merge", "batch2/run.skf", "batch1/run.skf", "-o", "batches"], to.merge(&t)) };
            must_ok(&run_ska(ctx, &dir, &args), &format!("ska {}", args.join(" ")))?;
            model::compare_nk(&nk(ctx, &dir, "batches.skf")?, &exp, k, rc, Some(k_bits_for(k))).map_err(|m| Outcome::Fail(format!("ska {}: {m}", args.join(" "))))?;
        }
        // weed with the first sample's records, then the rewritten file must still be the right width
        cli::write_fasta_auto(&dir.join("w.fa"), &samples[0].1, None);
        must_ok(&run_ska(ctx, &dir, &["weed", "x.skf", "w.fa", "--min-freq", "0", "-o", "xw.skf"]), "ska weed")?;
        let xw = nk(ctx, &dir, "xw.skf")?;
        let wset = model::build_sample(&samples[0].1, k, rc).keys().cloned().collect();
        model::compare_nk(&xw, &t.weed(&wset, false), k, rc, Some(k_bits_for(k))).map_err(|m| Outcome::Fail(format!("weed: {m}")))?;
        // weed with the generated filter flags on top (all of them are forwarded for both integer widths)
        {
            let n = t.nsamples();
            let (g, sp) = c06::weed_filter_spec(&c.flags, n);
            let mut args: Vec<String> = vec!["weed".into(), "x.skf".into(), "w.fa".into(), "-o".into(), "xwf.skf".into()];
            args.extend(c06::weed_filter_args(&g, n));
            let argv: Vec<&str> = args.iter().map(|s| s.as_str()).collect();
            must_ok(&run_ska(ctx, &dir, &argv), &format!("ska {}", args.join(" ")))?;
            let mut exp = t.weed(&wset, false);
            if let Some(sp) = &sp {
                exp = exp.filter(sp);
            }
            model::compare_nk(&nk(ctx, &dir, "xwf.skf")?, &exp, k, rc, Some(k_bits_for(k))).map_err(|m| Outcome::Fail(format!("ska {}: {m}", args.join(" "))))?;
        }
        // delete (rewrites the file)
        if samples.len() >= 2 {
            let name = samples[gen::idx(c.del, samples.len())].0.clone();
            must_ok(&run_ska(ctx, &dir, &["delete", "-s", "x.skf", "-o", "xd", &name]), "ska delete")?;
            let xd = nk(ctx, &dir, "xd.skf")?;
            model::compare_nk(&xd, &t.delete(&[name]), k, rc, Some(k_bits_for(k))).map_err(|m| Outcome::Fail(format!("delete: {m}")))?;
        }
        // align and distance give the model's answers on the saved file
        let n = t.nsamples();
        let mut args: Vec<String> = vec!["align".into()];
        args.extend(c06::align_args(&c.flags, n));
        args.push("x.skf".into());
        let argv: Vec<&str> = args.iter().map(|s| s.as_str()).collect();
        let o = run_ska(ctx, &dir, &argv);
        must_ok(&o, "ska align")?;
        c06::compare_align(&model::parse_fasta(&o.out_str()), &t, &c06::spec(&c.flags, n)).map_err(|m| Outcome::Fail(format!("align on the saved file: {m}")))?;
        // a filter that may empty the table: the (possibly empty) file must save and reload
        must_ok(&run_ska(ctx, &dir, &["weed", "x.skf", "--filter", "no-ambig", "--min-freq", "1", "-o", "e.skf"]), "ska weed --filter no-ambig --min-freq 1")?;
        let e = nk(ctx, &dir, "e.skf")?;
        let sp = model::FilterSpec { min_count: n.max(1), kind: model::FilterKind::NoAmbig, ambig_as_missing: false, ambig_mask: false, no_gap_only: false };
        model::compare_nk(&e, &t.filter(&sp), k, rc, Some(k_bits_for(k))).map_err(|m| Outcome::Fail(format!("weed --filter no-ambig --min-freq 1: {m}")))?;
        // merging the (possibly empty) filtered file must still contribute its samples, in both orders
        let te = t.filter(&sp);
        must_ok(&run_ska(ctx, &dir, &["merge", "o.skf", "e.skf", "-o", "oe"]), "ska merge o e (e possibly empty)")?;
        must_ok(&run_ska(ctx, &dir, &["merge", "e.skf", "o.skf", "-o", "eo"]), "ska merge e o (e possibly empty)")?;
        let renamed = |tt: &Table, suffix: &str| Table { names: tt.names.iter().map(|n| format!("{n}{suffix}")).collect(), rows: tt.rows.clone() };
        let _ = renamed;
        model::compare_nk(&nk(ctx, &dir, "oe.skf")?, &to.merge(&te), k, rc, Some(k_bits_for(k))).map_err(|m| Outcome::Fail(format!("merge o e with e {}: {m}", if te.rows.is_empty() { "EMPTY" } else { "filtered" })))?;
        model::compare_nk(&nk(ctx, &dir, "eo.skf")?, &te.merge(&to), k, rc, Some(k_bits_for(k))).map_err(|m| Outcome::Fail(format!("merge e o with e {}: {m}", if te.rows.is_empty() { "EMPTY" } else { "filtered" })))?;
        // map against the first sample's own records: must succeed (its k-mers are in the file)
        cli::write_fasta_auto(&dir.join("ref.fa"), &samples[0].1, None);
        let o = run_ska(ctx, &dir, &["map", "ref.fa", "x.skf"]);
        must_ok(&o, "ska map of a sample against its own sequence")?;
        let aln = model::parse_fasta(&o.out_str());
        let exp = super::c04::model_map(&samples[0].1, &[model::build_sample(&samples[0].1, k, rc)], k, rc, false, false);
        if aln.is_empty() || aln[0].1 != exp[0] {
            return Err(Outcome::Fail(format!("map of sample 0 against its own records: got {} expected {}", aln.first().map(|a| lossy(&a.1)).unwrap_or_default(), lossy(&exp[0]))));
        }
        Ok(())
    })();
    ctx.done(&dir);
    match r {
        Err(Outcome::Fail(m)) => Outcome::Fail(format!("k={k} rc={rc} samples={}: {m}", show_samples(&samples))),
        Err(o) => o,
        Ok(()) => {
            let n = t.nsamples();
            let sp = model::FilterSpec { min_count: n.max(1), kind: model::FilterKind::NoAmbig, ambig_as_missing: false, ambig_mask: false, no_gap_only: false };
            let emptied = t.filter(&sp).rows.is_empty();
            match classify(c, &t, &samples) {
                Outcome::Pass { nontrivial, key, mut classes } => {
                    if emptied {
                        classes.push("merged_an_empty_file");
                    }
                    Outcome::Pass { nontrivial: nontrivial || emptied, key, classes }
                }
                o => o,
            }
        }
    }
}

// ---- large tables (thousands of k-mers, multi-frame files) round trip

#[derive(Clone, Debug, Serialize, Deserialize)]
pub struct LargeCase {
    pub k: usize,
    pub rc: bool,
    pub n: usize,
    pub rows: u16,
    pub fits64: bool,
    pub content_seed: u64,
}

fn large_strategy() -> BoxedStrategy<LargeCase> {
    (gen::k_strategy(), any::<bool>(), 1usize..=6, 1500u16..9000, any::<bool>(), any::<u64>())
        .prop_map(|(k, rc, n, rows, fits64, content_seed)| LargeCase { k, rc, n, rows, fits64, content_seed })
        .boxed()
}

fn large_table(c: &LargeCase) -> Table {
    let mut st = c.content_seed;
    let mut next = || {
        st = st.wrapping_add(0x9E37_79B9_7F4A_7C15);
        crate::engine::splitmix64(st)
    };
    let bits = 2 * (c.k - 1);
    let eff = if c.fits64 && c.k >= 35 { 64 } else { bits };
    let mut rows = std::collections::BTreeMap::new();
    // at small k the space is small: cap the number of rows
    let want = (c.rows as usize).min(if bits < 20 { 1usize << (bits - 2) } else { usize::MAX });
    while rows.len() < want {
        let v = ((next() as u128) << 64) | next() as u128;
        let x = if eff >= 128 { v } else { v & ((1u128 << eff) - 1) };
        let syms: Vec<u8> = (0..c.n).map(|_| b"ACGTACGT--RYSWKMN"[(next() % 17) as usize]).collect();
        if syms.iter().all(|b| *b == b'-') {
            continue;
        }
        rows.insert(model::unpack_arms(x, c.k), syms);
    }
    Table { names: sample_names(c.n, "L"), rows }
}

fn check_large(c: &LargeCase, ctx: &Ctx) -> Outcome {
    let t = large_table(c);
    let dir = ctx.case_dir();
    let path = dir.join("large.skf");
    let r: Result<u64, String> = (|| {
        if c.k <= 31 {
            save_table::<u64>(&t, c.k, c.rc, &path, false)?;
        } else {
            save_table::<u128>(&t, c.k, c.rc, &path, false)?;
        }
        let size = std::fs::metadata(&path).map(|m| m.len()).unwrap_or(0);
        let (width, t2, disp, dbg, k2, rc2) = dispatch_load(&cli::p(&path))?;
        if width != k_bits_for(c.k) {
            return Err(format!("file written with {}-bit k-mers read back as {width}-bit", k_bits_for(c.k)));
        }
        if k2 != c.k || rc2 != c.rc {
            return Err(format!("reloaded k={k2} rc={rc2}"));
        }
        if t2 != t {
            return Err(format!("reloaded content differs: {}", table_diff(&t2, &t)));
        }
        if !disp.contains(&format!("k-mers={}", t.rows.len())) {
            return Err("nk summary reports a wrong number of k-mers".into());
        }
        // what `ska nk --full-info` prints for the reloaded file (its Debug form) must list every row
        let listing = model::parse_nk(&format!("{disp}\n{dbg}")).map_err(|e| format!("full listing of the reloaded file: {e}"))?;
        model::compare_nk(&listing, &t, c.k, c.rc, Some(k_bits_for(c.k))).map_err(|e| format!("full listing (nk --full-info text) of the reloaded file: {e}"))?;
        Ok(size)
    })();
    let r = std::panic::catch_unwind(std::panic::AssertUnwindSafe(|| r)).unwrap_or_else(|e| Err(panic_msg(&e)));
    ctx.done(&dir);
    match r {
        Err(m) => Outcome::Fail(format!("k={} rc={} samples={} rows={} fits64={} content_seed={}: {m}", c.k, c.rc, c.n, t.rows.len(), c.fits64, c.content_seed)),
        Ok(size) => {
            let mut cl = vec![];
            if size > 65536 { cl.push("multi_frame_file"); }
            if c.fits64 && c.k >= 35 { cl.push("k>=35_fits_64_bits"); }
            if c.k >= 33 { cl.push("128bit"); }
            pass(size > 65536 || (c.fits64 && c.k >= 35), key_of(&(c.k, c.rc, c.n, c.rows, c.fits64, c.content_seed)), cl)
        }
    }
}

const RULE: &str = "generated: every valid k (uniform + weight on 31/33/35/37/63), 1-4 samples; classes: ordinary, every stored k-mer fits 64 bits (k>=35: records A^(k-33+j)+33 random bases, length k..k+3), mixture, emptied table. In-process: build -> MergeSkaArray -> save -> load by the CLI's 64-then-128 dispatch: width used == width written, k/strand/names/rows (harness decoder) and nk text identical; align (generated filters), distance, delete, weed give identical results on the reloaded and the in-memory array. CLI: nk == model incl. k_bits; merge with an ordinary file in both orders and of three files (the outer two sharing k-mers the middle one lacks) in three orders, weed (plain and with the generated filter flags), delete, align == model; map of a sample against its own records == map model. Non-trivial: k>=35 file that fits 64 bits, or mixture, or k in {31,33,35}, or empty table.";

fn show(c: &Case) -> serde_json::Value {
    let s = materialise(c);
    json!({"k": c.set.k, "two_strand": c.set.rc, "class": c.class, "empty": c.empty, "samples": s.iter().map(|(n, r)| json!({"name": n, "records": r.iter().map(|x| lossy(x)).collect::<Vec<_>>()})).collect::<Vec<_>>()})
}

fn stages(tier: Tier) -> Vec<Box<dyn Stage>> {
    vec![
        gen_stage_show("inproc", RULE, tier.pick(8000, 100_000), 400, case_strategy, check_inproc, show),
        gen_stage_show("cli", RULE, tier.pick(800, 10_000), 150, case_strategy, check_cli, show),
        gen_stage_show("large", "generated: tables of 1500-9000 random k-mers (content a pure function of the case's content_seed), 1-6 samples, every valid k, half of the k>=35 tables restricted to 64-bit-fitting k-mers; written through the public API, reloaded by the 64-then-128 dispatch: width, k, strand, names and every row identical (harness decoder), and the full listing that nk --full-info prints == the table. Non-trivial: file larger than one snappy frame (64 KiB) or a 64-bit-fitting k>=35 table.", tier.pick(96, 1600), 20, large_strategy, check_large, |c| json!({"k": c.k, "samples": c.n, "rows": c.rows, "fits64": c.fits64})),
    ]
}

pub fn def() -> PropDef {
    PropDef {
        id: "C09",
        level: "exploration",
        assumptions: &[
            "in-process calls use threads=1; map is only driven through the CLI (rayon global pool, DESIGN §2.3)",
            "tables up to a few hundred k-mers per case (multi-frame files are exercised by C19)",
        ],
        stages,
        post: None,
    }
}
