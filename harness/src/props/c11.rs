//! C11 — thread count and run-to-run nondeterminism never change a result.

use std::sync::atomic::{AtomicU64, Ordering};

use proptest::prelude::*;
use serde::{Deserialize, Serialize};
use serde_json::json;

use super::c17;
use super::common::*;
use super::PropDef;
use crate::cli::{self, run_ska, CmdOut};
use crate::engine::{gen_stage_show, key_of, pass, Ctx, Outcome, Runtime, Stage, Tier};
use crate::gen;
use crate::model;

#[derive(Clone, Copy, Debug, Serialize, Deserialize, PartialEq)]
pub enum Cmd {
    Build,
    /// ska build from paired FASTQ files (three-column file list), --min-count 1
    BuildFastq,
    AlignSkf,
    AlignOneStep,
    MapSkf { vcf: bool },
    MapOneStep { vcf: bool },
    Distance,
}

#[derive(Clone, Debug, Serialize, Deserialize)]
pub struct Case {
    pub n_sel: u8,
    pub k_sel: u8,
    pub anc: Vec<u8>,
    /// SNPs: (position selector, base, carrier pattern seed)
    pub snps: Vec<(u16, u8, u16)>,
    pub cmd: Cmd,
    pub threads: Vec<u8>,
    pub rc_mask: u16,
}

/// both sides of every threshold of the 10-samples-per-thread rule: 2 threads from 10, 4 from 30,
/// 8 from 70 (merge recursion depth 3), 16 from 150 (depth 4)
const SAMPLE_COUNTS: [usize; 14] = [2, 5, 9, 10, 29, 30, 31, 45, 69, 70, 72, 149, 150, 161];
const KS: [usize; 5] = [15, 17, 21, 31, 33];
const THREADS: [u8; 5] = [2, 3, 4, 8, 16];

fn case_strategy() -> BoxedStrategy<Case> {
    (
        0u8..14,
        0u8..5,
        proptest::collection::vec(0u8..4, 150..400),
        proptest::collection::vec((any::<u16>(), 0u8..4, any::<u16>()), 1..12),
        prop_oneof![
            2 => Just(Cmd::Build),
            2 => Just(Cmd::BuildFastq),
            1 => Just(Cmd::AlignSkf),
            2 => Just(Cmd::AlignOneStep),
            1 => any::<bool>().prop_map(|vcf| Cmd::MapSkf { vcf }),
            3 => any::<bool>().prop_map(|vcf| Cmd::MapOneStep { vcf }),
            2 => Just(Cmd::Distance),
        ],
        proptest::collection::vec(prop::sample::select(THREADS.to_vec()), 2..=2),
        any::<u16>(),
    )
        .prop_map(|(n_sel, k_sel, anc, snps, cmd, threads, rc_mask)| Case { n_sel, k_sel, anc, snps, cmd, threads, rc_mask })
        .boxed()
}

fn one_step(cmd: &Cmd) -> bool {
    matches!(cmd, Cmd::AlignOneStep | Cmd::MapOneStep { .. })
}

fn materialise(c: &Case) -> (usize, Vec<u8>, Vec<Sample>) {
    let k = if one_step(&c.cmd) { 17 } else { KS[c.k_sel as usize % 5] };
    let n = SAMPLE_COUNTS[c.n_sel as usize % 14];
    let anc = gen::bases_to_seq(&c.anc);
    let mut samples = Vec::new();
    for j in 0..n {
        let mut s = anc.clone();
        for (ps, b, seed) in &c.snps {
            let h = crate::engine::splitmix64((*seed as u64) << 16 | j as u64);
            if h & 3 == 0 {
                let p = gen::idx(*ps, s.len());
                // every third site is multi-allelic: the carriers do not all carry the same base
                s[p] = if seed % 3 == 0 { model::BASES[(*b as usize + (h >> 2) as usize % 3) & 3] } else { model::BASES[*b as usize & 3] };
            }
        }
        if (c.rc_mask >> (j % 16)) & 1 == 1 {
            s = model::revcomp(&s);
        }
        samples.push((format!("smp{j}"), vec![s]));
    }
    (k, anc, samples)
}

/// result of one run, normalised according to the property's per-command equivalence
#[derive(PartialEq, Eq, Debug, Clone)]
enum Res {
    Failed(String),
    Bytes(Vec<u8>),
    Columns(Vec<Vec<u8>>, Vec<String>),
    Table(model::Table),
}

/// --min-count of the paired-FASTQ builds (the counting filter is per-sample state of the build workers)
fn fastq_min_count(c: &Case, n_samples: usize) -> usize {
    [1usize, 2, 3, 5][(c.rc_mask as usize / 2 + n_samples) % 4]
}

fn run_cmd(ctx: &Ctx, dir: &std::path::Path, c: &Case, k: usize, samples: &[Sample], threads: u8, tag: &str) -> Result<Res, Outcome> {
    let ts = threads.to_string();
    let fail = |o: &CmdOut| Res::Failed(o.err_tail());
    let infra = |o: &CmdOut| o.infra().map(Outcome::Infra);
    let files: Vec<String> = (0..samples.len()).map(|i| format!("smp{i}.fa")).collect();
    match c.cmd {
        Cmd::Build | Cmd::BuildFastq => {
            let out = format!("b_{tag}");
            let ks = k.to_string();
            let o = if c.cmd == Cmd::Build {
                run_ska(ctx, dir, &["build", "-f", "list.txt", "-o", &out, "-k", &ks, "--threads", &ts])
            } else {
                let mc = fastq_min_count(c, samples.len()).to_string();
                run_ska(ctx, dir, &["build", "-f", "fq_list.txt", "-o", &out, "-k", &ks, "--threads", &ts, "--min-count", &mc, "--qual-filter", "no-filter"])
            };
            if let Some(e) = infra(&o) {
                return Err(e);
            }
            if !o.ok() {
                return Ok(fail(&o));
            }
            let t = nk(ctx, dir, &format!("{out}.skf"))?;
            let _ = std::fs::remove_file(dir.join(format!("{out}.skf")));
            Ok(Res::Table(t.table()))
        }
        Cmd::AlignSkf | Cmd::AlignOneStep => {
            let mut args: Vec<&str> = vec!["align", "--min-freq", "0.5", "--threads", &ts];
            if c.cmd == Cmd::AlignSkf {
                args.push("x.skf");
            } else {
                args.extend(files.iter().map(|s| s.as_str()));
            }
            let o = run_ska(ctx, dir, &args);
            if let Some(e) = infra(&o) {
                return Err(e);
            }
            if !o.ok() {
                return Ok(fail(&o));
            }
            let aln = model::parse_fasta(&o.out_str());
            let cols = model::aln_columns(&aln).map_err(Outcome::Fail)?;
            Ok(Res::Columns(cols, aln.into_iter().map(|a| a.0).collect()))
        }
        Cmd::MapSkf { vcf } | Cmd::MapOneStep { vcf } => {
            let mut args: Vec<&str> = vec!["map", "ref.fa"];
            if matches!(c.cmd, Cmd::MapSkf { .. }) {
                args.push("x.skf");
            } else {
                args.extend(files.iter().map(|s| s.as_str()));
            }
            args.extend_from_slice(&["--threads", &ts]);
            if vcf {
                args.extend_from_slice(&["-f", "vcf"]);
            }
            let o = run_ska(ctx, dir, &args);
            if let Some(e) = infra(&o) {
                return Err(e);
            }
            if !o.ok() {
                return Ok(fail(&o));
            }
            Ok(Res::Bytes(o.stdout))
        }
        Cmd::Distance => {
            let o = run_ska(ctx, dir, &["distance", "x.skf", "--threads", &ts]);
            if let Some(e) = infra(&o) {
                return Err(e);
            }
            if !o.ok() {
                return Ok(fail(&o));
            }
            Ok(Res::Bytes(o.stdout))
        }
    }
}

fn describe_res(r: &Res) -> String {
    match r {
        Res::Failed(m) => format!("FAILED: {m}"),
        Res::Bytes(b) => crate::engine::truncate(&lossy(b), 400),
        Res::Columns(c, n) => format!("{} columns {:?} names {:?}", c.len(), c.iter().take(6).map(|x| lossy(x)).collect::<Vec<_>>(), n.iter().take(3).collect::<Vec<_>>()),
        Res::Table(t) => format!("table with {} rows, {} samples", t.rows.len(), t.names.len()),
    }
}

fn check(c: &Case, ctx: &Ctx) -> Outcome {
    let (k, anc, mut samples) = materialise(c);
    // in a quarter of the larger builds the very same entry (name and file) is listed a second time, at a
    // quarter, half or three quarters of the list (where the parallel build splits its input)
    let repeat_at = if c.cmd == Cmd::Build && samples.len() >= 12 && c.rc_mask % 4 == 1 { Some(samples.len() * (1 + (c.rc_mask as usize / 4) % 3) / 4) } else { None };
    if let Some(at) = repeat_at {
        samples[at] = samples[2].clone();
    }
    // one in sixteen of the larger inputs: the first or the second half of the list are blank controls (nothing but
    // a fragment shorter than k); whatever ska makes of such samples, it must not depend on the thread count
    let blank_half = repeat_at.is_none() && samples.len() >= 10 && c.rc_mask % 16 == 7 && matches!(c.cmd, Cmd::Build | Cmd::AlignOneStep | Cmd::MapOneStep { .. });
    if blank_half {
        let n = samples.len();
        let range = if (c.rc_mask >> 4) & 1 == 0 { 0..n / 2 } else { n / 2..n };
        for j in range {
            samples[j].1 = vec![anc[..k - 1].to_vec()];
        }
    }
    let dir = ctx.case_dir();
    let other_compression_cell = std::cell::Cell::new(false);
    let r: Result<(), Outcome> = (|| {
        let mut other_compression = false;
        let mut list = String::new();
        for (i, (name, recs)) in samples.iter().enumerate() {
            cli::write_fasta_auto(&dir.join(format!("smp{i}.fa")), recs, None);
            let fi = if repeat_at == Some(i) { 2 } else { i };
            // a few files of the larger builds are compressed with bzip2 or xz (read transparently, like gzip)
            let ext = if c.cmd == Cmd::Build && samples.len() >= 10 && repeat_at.is_none() && i % 7 == 5 && c.rc_mask % 2 == 0 { if i % 2 == 0 { ".xz" } else { ".bz2" } } else { "" };
            if !ext.is_empty() && !cli::compress_external(&dir.join(format!("smp{i}.fa")), &dir.join(format!("smp{i}.fa{ext}")), &ext[1..]) {
                list += &format!("{name}\tsmp{fi}.fa\n");
            } else {
                if !ext.is_empty() { other_compression = true; }
                list += &format!("{name}\tsmp{fi}.fa{ext}\n");
            }
        }
        std::fs::write(dir.join("list.txt"), list).unwrap();
        other_compression_cell.set(other_compression);
        if c.cmd == Cmd::BuildFastq {
            // paired reads: the first half of each genome in file 1, the second half (reverse-complemented) in file 2
            let mut fq = String::new();
            for (i, (name, recs)) in samples.iter().enumerate() {
                let g = &recs[0];
                let half = g.len() / 2;
                let (a, b) = (g[..half + k].to_vec(), model::revcomp(&g[half..]));
                // each read min-count times in file 1 and, for odd samples, once less in file 2
                // (so that the count threshold decides about the k-mers only file 2 covers)
                let m = fastq_min_count(c, samples.len());
                // every fourth sample: neither file reaches the count alone, the part covered by both does
                let (ra, rb) = if i % 4 == 2 { ((m + 1) / 2, (m - (m + 1) / 2).max(1)) } else { (m, if i % 2 == 1 { (m - 1).max(1) } else { m }) };
                cli::write_fastq(&dir.join(format!("smp{i}_1.fastq")), &vec![(a.clone(), vec![b'I'; a.len()]); ra]);
                cli::write_fastq(&dir.join(format!("smp{i}_2.fastq")), &vec![(b.clone(), vec![b'I'; b.len()]); rb]);
                // a list may mix assemblies (two columns) and read pairs (three columns)
                if (c.rc_mask as usize + samples.len()) % 2 == 0 && i % 3 != 1 {
                    fq += &format!("{name}\tsmp{i}.fa\n");
                } else {
                    if c.rc_mask % 4 == 3 && i >= samples.len() / 2 {
                        // the second half of the list: single-end reads, one FASTQ file per sample (two columns)
                        fq += &format!("{name}\tsmp{i}_1.fastq\n");
                    } else if i % 8 == 6 {
                        // single-end reads listed as a pair: the same file in both columns is read twice
                        fq += &format!("{name}\tsmp{i}_1.fastq\tsmp{i}_1.fastq\n");
                    } else {
                        fq += &format!("{name}\tsmp{i}_1.fastq\tsmp{i}_2.fastq\n");
                    }
                }
            }
            std::fs::write(dir.join("fq_list.txt"), fq).unwrap();
        }
        cli::write_fasta(&dir.join("ref.fa"), &["ref".to_string()], &[anc.clone()], None);
        if matches!(c.cmd, Cmd::AlignSkf | Cmd::MapSkf { .. } | Cmd::Distance) {
            let ks = k.to_string();
            must_ok(&run_ska(ctx, &dir, &["build", "-f", "list.txt", "-o", "x", "-k", &ks]), "ska build")?;
        }
        let base = run_cmd(ctx, &dir, c, k, &samples, 1, "t1")?;
        let mut runs: Vec<(String, Res)> = vec![("--threads 1 (repeated)".into(), run_cmd(ctx, &dir, c, k, &samples, 1, "t1r")?)];
        // with >= 70 samples the deeper levels of the parallel merge need 8 / 16 threads
        let threads: Vec<u8> = if samples.len() >= 150 { vec![16, c.threads[1]] } else if samples.len() >= 70 { vec![if c.threads[0] >= 8 { c.threads[0] } else { 8 }, c.threads[1]] } else { c.threads.clone() };
        for t in &threads {
            runs.push((format!("--threads {t}"), run_cmd(ctx, &dir, c, k, &samples, *t, &format!("t{t}"))?));
        }
        runs.push((format!("--threads {} (repeated)", threads[0]), run_cmd(ctx, &dir, c, k, &samples, threads[0], "tr")?));
        for (what, res) in &runs {
            if *res != base {
                if let (Res::Failed(_), Res::Failed(_)) = (&base, res) {
                    continue; // fails either way: not what this property is about
                }
                return Err(Outcome::Fail(format!("{what} differs from --threads 1:\n  single-threaded: {}\n  this run:        {}", describe_res(&base), describe_res(res))));
            }
        }
        Ok(())
    })();
    ctx.done(&dir);
    match r {
        Err(Outcome::Fail(m)) => Outcome::Fail(format!("cmd={:?} k={k} samples={} threads={:?}: {m}", c.cmd, samples.len(), c.threads)),
        Err(o) => o,
        Ok(()) => {
            let mut cl: Vec<&'static str> = vec![match c.cmd {
                Cmd::Build => "build",
                Cmd::BuildFastq => "build_paired_fastq",
                Cmd::AlignSkf => "align_skf",
                Cmd::AlignOneStep => "align_one_step",
                Cmd::MapSkf { vcf: false } => "map_skf_aln",
                Cmd::MapSkf { vcf: true } => "map_skf_vcf",
                Cmd::MapOneStep { vcf: false } => "map_one_step_aln",
                Cmd::MapOneStep { vcf: true } => "map_one_step_vcf",
                Cmd::Distance => "distance",
            }];
            if blank_half { cl.push("half_of_the_list_without_any_kmer"); }
            if other_compression_cell.get() { cl.push("inputs_compressed_with_bzip2_or_xz"); }
            if samples.len() >= 10 { cl.push(">=10_samples(parallel merge)"); }
            if samples.len() >= 70 { cl.push(">=70_samples(merge depth>=3)"); }
            if samples.len() >= 150 { cl.push(">=150_samples(merge depth 4)"); }
            let nt = samples.len() >= 10 || one_step(&c.cmd);
            pass(nt, key_of(&(c.cmd as Cmd, k, &samples, &c.threads)), cl)
        }
    }
}

// ------------------------------------------------------------------ ska lo

#[derive(Clone, Debug, Serialize, Deserialize)]
pub struct LoCase {
    pub inner: c17::Case,
    pub threads: Vec<u8>,
}

fn lo_strategy() -> BoxedStrategy<LoCase> {
    (prop_oneof![c17::case_strategy_pub(false), c17::case_strategy_pub(true)], proptest::collection::vec(prop::sample::select(vec![2u8, 3, 4, 8]), 2..=2))
        .prop_map(|(inner, threads)| LoCase { inner, threads })
        .boxed()
}

/// normalised outputs of one `ska lo` run
#[derive(PartialEq, Eq, Debug, Clone)]
pub struct LoOut {
    pub failed: Option<String>,
    /// with reference: raw bytes of snps.fas, snps.vcf, pseudo_genomes.fas; without: column multiset up to complement
    pub snps: Vec<Vec<u8>>,
    pub indels: Vec<String>,
}

/// canonical form of an indel record: strand and REF/ALT presentation removed
fn norm_indel(line: &str) -> String {
    let f: Vec<&str> = line.split('\t').collect();
    if f.len() < 10 {
        return line.to_string();
    }
    let (mut before, mut after) = ("", "");
    for x in &f {
        if x.starts_with("before=") {
            for kv in x.split(';') {
                if let Some(v) = kv.strip_prefix("before=") {
                    before = v;
                }
                if let Some(v) = kv.strip_prefix("after=") {
                    after = v;
                }
            }
        }
    }
    let (r, a) = (f[3].replace('-', ""), f[4].replace('-', ""));
    let gts: Vec<&str> = f[9..].to_vec();
    let form = |x: &str| format!("{before}{x}{after}").into_bytes();
    let canon = |s: Vec<u8>| {
        let r = model::revcomp(&s);
        if r < s {
            r
        } else {
            s
        }
    };
    let (s0, s1) = (canon(form(&r)), canon(form(&a)));
    let mut alleles = vec![(s0, "0"), (s1, "1")];
    alleles.sort();
    let swap = alleles[0].1 == "1";
    let g: Vec<String> = gts
        .iter()
        .map(|x| match (*x, swap) {
            ("0", true) => "1".to_string(),
            ("1", true) => "0".to_string(),
            (o, _) => o.to_string(),
        })
        .collect();
    format!("{}|{}|{}", lossy(&alleles[0].0), lossy(&alleles[1].0), g.join(","))
}

pub fn run_lo(ctx: &Ctx, dir: &std::path::Path, with_ref: bool, extra: &[&str], threads: u8, tag: &str) -> Result<LoOut, Outcome> {
    let ts = threads.to_string();
    let out = format!("o_{tag}");
    let mut args: Vec<&str> = vec!["lo", "x.skf", &out, "--threads", &ts];
    if with_ref {
        args.extend_from_slice(&["-r", "ref.fa"]);
    }
    args.extend_from_slice(extra);
    let o = run_ska(ctx, dir, &args);
    if let Some(e) = o.infra() {
        return Err(Outcome::Infra(e));
    }
    if !o.ok() {
        return Ok(LoOut { failed: Some(o.err_tail()), snps: vec![], indels: vec![] });
    }
    let rd = |suffix: &str| std::fs::read(dir.join(format!("{out}{suffix}"))).unwrap_or_default();
    let snps = if with_ref {
        vec![rd("_snps.fas"), rd("_snps.vcf"), rd("_pseudo_genomes.fas")]
    } else {
        let aln = model::parse_fasta(&lossy(&rd("_snps.fas")));
        let cols = model::aln_columns(&aln).map_err(Outcome::Fail)?;
        let mut c: Vec<Vec<u8>> = cols.iter().map(|x| model::norm_column(x)).collect();
        c.sort();
        let mut v = vec![aln.iter().map(|a| a.0.clone()).collect::<Vec<_>>().join(",").into_bytes()];
        v.extend(c);
        v
    };
    let mut indels: Vec<String> = lossy(&rd("_indels.vcf")).lines().filter(|l| !l.starts_with('#') && !l.is_empty()).map(norm_indel).collect();
    indels.sort();
    for s in ["_snps.fas", "_snps.vcf", "_pseudo_genomes.fas", "_indels.vcf"] {
        let _ = std::fs::remove_file(dir.join(format!("{out}{s}")));
    }
    Ok(LoOut { failed: None, snps, indels })
}

fn lo_diff(a: &LoOut, b: &LoOut) -> String {
    if a.failed != b.failed {
        return format!("exit status: {:?} vs {:?}", a.failed, b.failed);
    }
    if a.snps != b.snps {
        let i = a.snps.iter().zip(b.snps.iter()).position(|(x, y)| x != y).unwrap_or(0);
        return format!("SNP output #{i} differs:\n{}\n--- vs ---\n{}", crate::engine::truncate(&lossy(a.snps.get(i).unwrap_or(&vec![])), 500), crate::engine::truncate(&lossy(b.snps.get(i).unwrap_or(&vec![])), 500));
    }
    format!("indel records differ: {:?} vs {:?}", a.indels, b.indels)
}

fn check_lo(c: &LoCase, ctx: &Ctx) -> Outcome {
    let m = match c17::materialise(&c.inner) {
        Ok(m) => m,
        Err(e) => return Outcome::Reject(e),
    };
    let dir = ctx.case_dir();
    let with_ref = c.inner.with_ref;
    let r: Result<(), Outcome> = (|| {
        must_ok(&build(ctx, &dir, "x", &m.samples, c.inner.k, true, 1), "ska build")?;
        if with_ref {
            let refseq = if c.inner.ref_is_sample { m.fwd[0].clone() } else { m.ancestor.clone() };
            let rseq = if c.inner.ref_rc { model::revcomp(&refseq) } else { refseq };
            cli::write_fasta(&dir.join("ref.fa"), &["refname".to_string()], &[rseq], None);
        }
        let base = run_lo(ctx, &dir, with_ref, &[], 1, "t1")?;
        if base.failed.is_some() {
            return Err(Outcome::Fail(format!("ska lo failed on an isolated-variant input: {:?}", base.failed)));
        }
        let mut runs = vec![("--threads 1 (repeated)".to_string(), run_lo(ctx, &dir, with_ref, &[], 1, "t1r")?)];
        for t in &c.threads {
            runs.push((format!("--threads {t}"), run_lo(ctx, &dir, with_ref, &[], *t, &format!("t{t}"))?));
        }
        runs.push((format!("--threads {} (repeated)", c.threads[0]), run_lo(ctx, &dir, with_ref, &[], c.threads[0], "tr")?));
        for (what, res) in &runs {
            if *res != base {
                return Err(Outcome::Fail(format!("ska lo{} {what} differs from --threads 1: {}", if with_ref { " -r" } else { "" }, lo_diff(&base, res))));
            }
        }
        Ok(())
    })();
    ctx.done(&dir);
    match r {
        Err(Outcome::Fail(msg)) => Outcome::Fail(format!("k={} sites={:?} ancestor={} threads={:?}: {msg}", c.inner.k, m.sites.iter().map(|(p, a)| (*p, lossy(a))).collect::<Vec<_>>(), lossy(&m.ancestor), c.threads)),
        Err(o) => o,
        Ok(()) => {
            let mut cl = vec![if with_ref { "lo_with_reference" } else { "lo_reference_free" }];
            if m.sites.iter().any(|(_, a)| { let mut x = a.clone(); x.sort(); x.dedup(); x.len() >= 3 }) { cl.push("multi_allelic"); }
            pass(true, key_of(&(c.inner.k, &m.fwd, with_ref, &c.threads)), cl)
        }
    }
}

// ---- overlapping variant groups (class of the recorded finding F11)

pub static OVERLAP_CASES: AtomicU64 = AtomicU64::new(0);
pub static OVERLAP_DIFFS: AtomicU64 = AtomicU64::new(0);

#[derive(Clone, Debug, Serialize, Deserialize)]
pub struct OverlapCase {
    pub inner: c17::MessyCase,
    pub with_ref: bool,
}

fn overlap_strategy() -> BoxedStrategy<OverlapCase> {
    (c17::messy_strategy_pub(), any::<bool>()).prop_map(|(inner, with_ref)| OverlapCase { inner, with_ref }).boxed()
}

fn known_overlap_finding(rt_root: &std::path::Path) -> bool {
    std::fs::read_to_string(rt_root.join("known-findings.txt"))
        .map(|t| t.lines().any(|l| l.starts_with("known: property=C11") && l.contains("id=lo-overlap-hash-order")))
        .unwrap_or(false)
}

fn check_overlap(c: &OverlapCase, ctx: &Ctx) -> Outcome {
    let k = c.inner.k.max(if c.with_ref { 15 } else { 7 });
    // materialise with the k actually used, so that truncated samples still hold a window
    let mut inner = c.inner.clone();
    inner.k = k;
    let samples = c17::messy_samples(&inner);
    let dir = ctx.case_dir();
    let known = known_overlap_finding(&std::path::PathBuf::from(std::env::var("VERIF_ROOT").unwrap_or_else(|_| "/verif".into())));
    let r: Result<bool, Outcome> = (|| {
        must_ok(&build(ctx, &dir, "x", &samples, k, true, 1), "ska build")?;
        if c.with_ref {
            cli::write_fasta(&dir.join("ref.fa"), &["refname".to_string()], &[gen::bases_to_seq(&c.inner.anc)], None);
        }
        let ms = format!("{}", c.inner.m as f64 / 100.0);
        let extra = ["-m", ms.as_str()];
        let base = run_lo(ctx, &dir, c.with_ref, &extra, 1, "t1")?;
        let mut differs = false;
        for (i, t) in [1u8, 2, 4, 1].iter().enumerate() {
            let res = run_lo(ctx, &dir, c.with_ref, &extra, *t, &format!("r{i}"))?;
            // the exit status must never depend on the thread count
            if base.failed.is_none() != res.failed.is_none() {
                return Err(Outcome::Fail(format!("ska lo succeeds with --threads 1 but --threads {t} gives {:?} (or vice versa: {:?})", res.failed, base.failed)));
            }
            if res != base {
                differs = true;
                if !known {
                    return Err(Outcome::Fail(format!("ska lo --threads {t} differs from --threads 1 on an overlapping-variant input: {}", lo_diff(&base, &res))));
                }
            }
        }
        Ok(differs)
    })();
    ctx.done(&dir);
    match r {
        Err(Outcome::Fail(msg)) => Outcome::Fail(format!("k={k} with_ref={} samples={}: {msg}", c.with_ref, super::common::show_samples(&samples))),
        Err(o) => o,
        Ok(differs) => {
            if !ctx.replay {
                OVERLAP_CASES.fetch_add(1, Ordering::Relaxed);
                if differs {
                    OVERLAP_DIFFS.fetch_add(1, Ordering::Relaxed);
                }
            }
            pass(true, key_of(&(k, c.with_ref, &samples)), vec![if differs { "differs(known finding class)" } else { "identical" }])
        }
    }
}

// ---- ska build --min-count auto (a coverage fit per read pair runs before the build) ----

#[derive(Clone, Debug, Serialize, Deserialize)]
pub struct AutoCase {
    pub k: usize,
    pub n_samples: usize,
    pub genome_len: usize,
    pub seed: u64,
    pub threads: Vec<u8>,
}

fn auto_strategy() -> BoxedStrategy<AutoCase> {
    (prop::sample::select(vec![15usize, 21, 31]), 2usize..=3, 2000usize..4000, any::<u64>(), proptest::collection::vec(prop::sample::select(vec![2u8, 4, 8, 16]), 2..=2))
        .prop_map(|(k, n_samples, genome_len, seed, threads)| AutoCase { k, n_samples, genome_len, seed, threads })
        .boxed()
}

fn check_auto(c: &AutoCase, ctx: &Ctx) -> Outcome {
    let mut x = c.seed | 1;
    let mut next = move || {
        x = crate::engine::splitmix64(x);
        x
    };
    let dir = ctx.case_dir();
    let genome: Vec<u8> = (0..c.genome_len).map(|_| model::BASES[(next() >> 9) as usize % 4]).collect();
    let mut list = String::new();
    for j in 0..c.n_samples {
        // related genomes: a few substitutions per sample; 30x coverage in 100-base reads, 1 % errors, both strands
        let mut g = genome.clone();
        for _ in 0..3 {
            let p = (next() % g.len() as u64) as usize;
            g[p] = model::BASES[(next() >> 5) as usize % 4];
        }
        let n_reads = 30 * g.len() / 100;
        let (mut f1, mut f2) = (Vec::new(), Vec::new());
        for i in 0..n_reads {
            let st = (next() % (g.len() - 100) as u64) as usize;
            let mut r = g[st..st + 100].to_vec();
            for b in r.iter_mut() {
                if next() % 100 == 0 {
                    *b = model::BASES[(next() >> 5) as usize % 4];
                }
            }
            if next() % 2 == 0 {
                r = model::revcomp(&r);
            }
            let q = vec![b'I'; r.len()];
            if i % 2 == 0 { f1.push((r, q)) } else { f2.push((r, q)) }
        }
        cli::write_fastq(&dir.join(format!("a{j}_1.fastq")), &f1);
        cli::write_fastq(&dir.join(format!("a{j}_2.fastq")), &f2);
        list += &format!("{}\ta{j}_1.fastq\ta{j}_2.fastq\n", gen::set_sample_name(j));
    }
    std::fs::write(dir.join("auto_list.txt"), list).unwrap();
    let ks = c.k.to_string();
    let run = |t: u8, tag: &str| -> Result<Res, Outcome> {
        let (ts, out) = (t.to_string(), format!("auto_{tag}"));
        let o = run_ska(ctx, &dir, &["build", "-f", "auto_list.txt", "-o", &out, "-k", &ks, "--min-count", "auto", "--threads", &ts]);
        if let Some(e) = o.infra() {
            return Err(Outcome::Infra(e));
        }
        if !o.ok() {
            return Ok(Res::Failed(o.err_tail()));
        }
        let t = nk(ctx, &dir, &format!("{out}.skf"))?;
        let _ = std::fs::remove_file(dir.join(format!("{out}.skf")));
        Ok(Res::Table(t.table()))
    };
    let r: Result<bool, Outcome> = (|| {
        let base = run(1, "t1")?;
        for (t, tag) in [(1u8, "t1r".to_string()), (c.threads[0], format!("t{}", c.threads[0])), (c.threads[1], format!("u{}", c.threads[1]))] {
            let res = run(t, &tag)?;
            if res != base {
                if let (Res::Failed(_), Res::Failed(_)) = (&base, &res) {
                    continue;
                }
                return Err(Outcome::Fail(format!("--threads {t} differs from --threads 1:\n  single-threaded: {}\n  this run:        {}", describe_res(&base), describe_res(&res))));
            }
        }
        Ok(matches!(base, Res::Table(_)))
    })();
    ctx.done(&dir);
    match r {
        Err(Outcome::Fail(m)) => Outcome::Fail(format!("ska build --min-count auto, k={} samples={} genome {} bases seed {} threads={:?}: {m}", c.k, c.n_samples, c.genome_len, c.seed, c.threads)),
        Err(o) => o,
        Ok(built) => pass(built, key_of(&(c.k, c.n_samples, c.genome_len, c.seed, &c.threads)), vec![if built { "auto_cutoff_build_succeeds" } else { "auto_cutoff_build_refused_at_every_thread_count" }]),
    }
}

// ---- two substitutions closer than 2k in otherwise repeat-free sequence ----
// The recorded finding F11 concerns inputs with many overlapping differences or repeated (k-1)-mers.
// A single pair of close substitutions is the simplest overlapping input; there the unchanged tree is
// deterministic (measured: see DESIGN 4, F11), so run-to-run differences on such inputs are reported.

#[derive(Clone, Debug, Serialize, Deserialize)]
pub struct PairCase {
    pub k: usize,
    pub n_samples: usize,
    pub material: Vec<u8>,
    pub lead: u16,
    pub dist: u16,
    pub tail: u16,
    /// allele rotation per sample (cyclic) at the two sites
    pub rot_a: Vec<u8>,
    pub rot_b: Vec<u8>,
    pub orient: Vec<bool>,
    pub threads: Vec<u8>,
}

fn pair_strategy() -> BoxedStrategy<PairCase> {
    (
        prop::sample::select(vec![9usize, 11, 15, 17, 21, 31]),
        3usize..=6,
        proptest::collection::vec(0u8..4, 200..400),
        any::<u16>(),
        any::<u16>(),
        any::<u16>(),
        proptest::collection::vec(0u8..3, 3..7),
        proptest::collection::vec(0u8..3, 3..7),
        proptest::collection::vec(any::<bool>(), 1..6),
        proptest::collection::vec(prop::sample::select(vec![1u8, 2, 4, 8]), 2..=2),
    )
        .prop_map(|(k, n_samples, material, lead, dist, tail, rot_a, rot_b, orient, threads)| PairCase { k, n_samples, material, lead, dist, tail, rot_a, rot_b, orient, threads })
        .boxed()
}

fn pair_materialise(c: &PairCase) -> Result<(Vec<u8>, usize, usize, Vec<Sample>), String> {
    let k = c.k;
    let d = 1 + gen::idx(c.dist, 2 * k - 1); // 1 ..= 2k-1
    let p1 = 2 * k + gen::idx(c.lead, k);
    let p2 = p1 + d;
    let len = p2 + 2 * k + gen::idx(c.tail, k);
    let mut seen = std::collections::HashSet::new();
    let anc = gen::unique_seq(&c.material, len, k - 1, false, &mut seen).ok_or("no unique extension")?;
    let mut fwd: Vec<Vec<u8>> = Vec::new();
    for j in 0..c.n_samples {
        let mut s = anc.clone();
        for (p, rots) in [(p1, &c.rot_a), (p2, &c.rot_b)] {
            let r = rots[j % rots.len()] as usize;
            let ai = model::BASES.iter().position(|b| *b == s[p]).unwrap();
            s[p] = model::BASES[(ai + r) % 4];
        }
        fwd.push(s);
    }
    // both sites must vary, with different sample patterns
    let pat = |p: usize| fwd.iter().map(|s| s[p]).collect::<Vec<u8>>();
    let (a, b) = (pat(p1), pat(p2));
    if a.iter().all(|x| *x == a[0]) || b.iter().all(|x| *x == b[0]) {
        return Err("a site is constant".into());
    }
    // every sample must keep unique (k-1)-mers on both strands; a word may recur across samples only at the same place
    let w = k - 1;
    let items: Vec<(Vec<u8>, Vec<u64>)> = fwd.iter().map(|s| (s.clone(), (0..=(s.len() - w)).map(|i| i as u64).collect())).collect();
    if !gen::words_consistent(&items, w, false) {
        return Err("substitution creates a repeated word".into());
    }
    let samples: Vec<Sample> = fwd.iter().enumerate().map(|(j, s)| (gen::set_sample_name(j), vec![if c.orient[j % c.orient.len()] { model::revcomp(s) } else { s.clone() }])).collect();
    Ok((anc, p1, p2, samples))
}

fn check_pair(c: &PairCase, ctx: &Ctx) -> Outcome {
    let (anc, p1, p2, samples) = match pair_materialise(c) {
        Ok(x) => x,
        Err(e) => return Outcome::Reject(e),
    };
    let dir = ctx.case_dir();
    let r: Result<(), Outcome> = (|| {
        must_ok(&build(ctx, &dir, "x", &samples, c.k, true, 1), "ska build")?;
        let base = run_lo(ctx, &dir, false, &[], 1, "t1")?;
        if base.failed.is_some() {
            return Err(Outcome::Fail(format!("ska lo failed: {:?}", base.failed)));
        }
        for (i, t) in [1u8, c.threads[0], c.threads[1], 1, c.threads[0]].iter().enumerate() {
            let res = run_lo(ctx, &dir, false, &[], *t, &format!("r{i}"))?;
            if res != base {
                return Err(Outcome::Fail(format!("ska lo --threads {t} (run {}) differs from the first --threads 1 run: {}", i + 2, lo_diff(&base, &res))));
            }
        }
        Ok(())
    })();
    ctx.done(&dir);
    match r {
        Err(Outcome::Fail(msg)) => Outcome::Fail(format!("k={} two substitutions {} bases apart (positions {p1}, {p2}) ancestor={} samples={}: {msg}", c.k, p2 - p1, lossy(&anc), super::common::show_samples(&samples))),
        Err(o) => o,
        Ok(()) => {
            let d = p2 - p1;
            let cl = vec![if d < c.k - 1 { "distance<k-1" } else if d == c.k - 1 { "distance=k-1" } else if d == c.k { "distance=k" } else { "k<distance<2k" }];
            pass(true, key_of(&(c.k, &samples, &c.threads)), cl)
        }
    }
}

fn post(rt: &mut Runtime) {
    // the saved reproducer of the recorded finding F11
    let known = known_overlap_finding(&rt.verif_root);
    let rep_dir = rt.verif_root.join("notes").join("c11-lo-nondet");
    let mut distinct: std::collections::BTreeSet<Vec<u8>> = std::collections::BTreeSet::new();
    let scratch = rt.scratch_root.join("c11-repro");
    let _ = std::fs::create_dir_all(&scratch);
    if rep_dir.join("x.skf").exists() {
        let ctx = Ctx { scratch: scratch.clone(), ska: rt.ska.clone(), tier: rt.tier, replay: false, counter: std::cell::Cell::new(0) };
        let _ = std::fs::copy(rep_dir.join("x.skf"), scratch.join("x.skf"));
        for i in 0..16 {
            let out = format!("o{i}");
            let o = run_ska(&ctx, &scratch, &["lo", "x.skf", &out, "-m", "0.3", "--threads", "1"]);
            if o.ok() {
                distinct.insert(std::fs::read(scratch.join(format!("{out}_snps.fas"))).unwrap_or_default());
            }
        }
    }
    let (cases, diffs) = (OVERLAP_CASES.load(Ordering::Relaxed), OVERLAP_DIFFS.load(Ordering::Relaxed));
    if let Some(s) = rt.stages.last_mut() {
        s.extra.insert("overlapping_inputs".into(), json!(cases));
        s.extra.insert("overlapping_inputs_with_run_to_run_differences".into(), json!(diffs));
        s.extra.insert("saved_reproducer_distinct_outputs_in_16_runs".into(), json!(distinct.len()));
    }
    if distinct.len() > 1 || diffs > 0 {
        if known {
            rt.known_findings.push(format!(
                "id=lo-overlap-hash-order subcommand=lo class=overlapping-variant-groups: call set differs between repeated runs of the same command (saved reproducer: {} distinct SNP alignments in 16 runs; generated overlapping inputs with differences: {diffs} of {cases})",
                distinct.len()
            ));
        } else {
            rt.violations.push(crate::engine::Violation {
                stage: "lo_overlapping".into(),
                case: json!({"reproducer": "notes/c11-lo-nondet/x.skf", "cmd": "ska lo x.skf out -m 0.3 --threads 1"}),
                message: format!("ska lo gives {} different SNP alignments in 16 repeated single-threaded runs on the saved input", distinct.len()),
                worker: 0,
            });
        }
    }
}

const RULE: &str = "generated configurations: sample counts {2,5,9,10,29,30,31,45,69,70,72,149,150,161} (both sides of every threshold of the 10-samples-per-thread rule, i.e. parallel-merge recursion depths 0-4), k in {15,17,21,31,33}, related genomes with shared SNPs, random orientation; one of build (FASTA, or paired FASTQ through a three-column list) / align (skf, one-step) / map aln+vcf (skf, one-step `ska map ref.fa a.fa b.fa ...`) / distance; runs: --threads 1 (baseline), --threads 1 again (fresh process = fresh hash seeds), two thread counts from {2,3,4,8,16}, one repeated. Oracle vs baseline: byte-identical stdout for map and distance, same table for build (nk --full-info), same column multiset for align; success at 1 thread implies success at every count. Non-trivial: >= 10 samples or a one-step command. With >= 70 (150) samples one of the thread counts is forced to >= 8 (16) so that the deeper merge levels run.";

fn stages(tier: Tier) -> Vec<Box<dyn Stage>> {
    vec![
        gen_stage_show("pipeline", RULE, tier.pick(320, 4000), 40, case_strategy, check, |c| { let (k, _a, s) = materialise(c); json!({"cmd": format!("{:?}", c.cmd), "k": k, "samples": s.len(), "threads": c.threads, "first_sample": lossy(&s[0].1[0])}) }),
        gen_stage_show("build_auto", "ska build --min-count auto on 2-3 simulated read pairs (related 2-4 kb genomes, 30x, 100-base reads, 1 % errors, both strands), k in {15,21,31}: --threads 1 twice and two counts from {2,4,8,16}. Oracle: the same table (nk --full-info) as the first single-threaded run; success at one thread implies success at every count. Non-trivial: the single-threaded build succeeds.", tier.pick(16, 240), 6, auto_strategy, check_auto, |c| serde_json::to_value(c).unwrap()),
        gen_stage_show("lo_isolated", "C17's isolated-variant inputs (multi-allelic sites included), ska lo with and without -r, --threads 1 twice and two counts from {2,3,4,8}, one repeated. Oracle: with a reference snps.fas, snps.vcf and pseudo-genomes byte-identical; without, the same column multiset up to complement and the same names; indel records equal as a set after removing strand and REF/ALT presentation. Every case non-trivial.", tier.pick(320, 4000), 40, lo_strategy, check_lo, |c| json!({"k": c.inner.k, "with_ref": c.inner.with_ref, "threads": c.threads, "sites": c.inner.sites.len(), "samples": c.inner.n_samples})),
        gen_stage_show("lo_close_pairs", "exactly two substitutions 1..2k-1 bases apart (every distance, k-1 and k included) in otherwise repeat-free sequence, 3-6 samples with different allele patterns at the two sites, random orientation, k in {9,11,15,17,21,31}; reference-free ska lo six times (--threads 1 three times, two counts from {1,2,4,8}, one repeated). Oracle: same column multiset up to complement and same indel record set in every run (the simplest overlapping inputs; outside the class of the recorded finding, which needs more than two close differences or repeated words). Every case non-trivial.", tier.pick(320, 4000), 40, pair_strategy, check_pair, |c| json!({"k": c.k, "samples": c.n_samples, "distance": 1 + gen::idx(c.dist, 2 * c.k - 1), "threads": c.threads})),
        gen_stage_show("lo_overlapping", "overlapping-variant inputs (random substitutions/indels, close variants): run-to-run differences belong to the recorded finding lo-overlap-hash-order and are counted, not reported (reported as VIOLATION if known-findings.txt does not list it); the exit status must still not depend on the thread count.", tier.pick(160, 2000), 40, overlap_strategy, check_overlap, |c| json!({"k": c.inner.k, "with_ref": c.with_ref, "samples": c.inner.samples.len()})),
    ]
}

pub fn def() -> PropDef {
    PropDef {
        id: "C11",
        level: "exploration",
        assumptions: &[
            "schedules are sampled by the OS, not enumerated: thread counts, sample counts and repeated fresh processes are generated",
            "recorded finding lo-overlap-hash-order (known-findings.txt): on overlapping variant groups the call set of ska lo depends on per-process hash seeds",
        ],
        stages,
        post: Some(post),
    }
}
