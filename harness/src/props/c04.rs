//! C04 — mapped alignment equals the union of matched k-mer windows on the reference.

use std::collections::BTreeMap;

use proptest::prelude::*;
use serde::{Deserialize, Serialize};
use serde_json::json;

use super::common::*;
use super::PropDef;
use crate::cli::{self, run_ska};
use crate::engine::{gen_stage_show, key_of, pass, Ctx, Outcome, Stage, Tier};
use crate::gen::{self, Rec, SampleScript, SeqOp};
use crate::model::{self, SampleDict};

#[derive(Clone, Debug, Serialize, Deserialize)]
pub struct Case {
    pub k: usize,
    pub rc: bool,
    pub contigs: Vec<Rec>,
    pub samples: Vec<SampleScript>,
    pub ambig_mask: bool,
    pub repeat_mask: bool,
    pub width: Option<u8>,
    /// corollary: map the (upper-cased) reference against itself
    pub self_map: bool,
    /// drive `ska map ref.fa a.fa b.fa` in one step (only used when k == 17 and two-strand)
    pub one_step: bool,
}

pub fn contig_strategy(k: usize) -> BoxedStrategy<Vec<Rec>> {
    proptest::collection::vec(
        prop_oneof![
            5 => proptest::collection::vec(0u8..4, k..(4 * k + 20)).prop_map(|v| Rec { ops: vec![SeqOp::Rand(v)], lower: vec![], force_len: None, n_from_end: None }),
            3 => gen::rec_strategy(k),
            2 => proptest::collection::vec(0u8..4, 1..k).prop_map(|v| Rec { ops: vec![SeqOp::Rand(v)], lower: vec![], force_len: None, n_from_end: None }),
            // a record without any base (needletail accepts it; the shortest contig "shorter than k")
            1 => Just(Rec { ops: vec![SeqOp::Rand(vec![])], lower: vec![], force_len: None, n_from_end: None }),
        ],
        1..5,
    )
    .boxed()
}

pub fn case_strategy() -> BoxedStrategy<Case> {
    prop_oneof![4 => gen::k_strategy(), 1 => Just(17usize)]
        .prop_flat_map(|k| {
            (
                Just(k),
                prop::bool::weighted(0.65),
                contig_strategy(k),
                // mostly 1-4 samples; 9-12 in a sixth of the cases (sample counts beyond a machine word of bytes)
                prop_oneof![5 => proptest::collection::vec(gen::sample_strategy(k), 1..5), 1 => proptest::collection::vec(gen::sample_strategy(k), 9..13)],
                prop::bool::weighted(0.4),
                prop::bool::weighted(0.4),
                prop_oneof![2 => Just(None), 1 => (5u8..70).prop_map(Some)],
                prop::bool::weighted(0.1),
                prop::bool::weighted(0.5),
            )
        })
        .prop_map(|(k, rc, contigs, samples, ambig_mask, repeat_mask, width, self_map, one_step)| Case { k, rc, contigs, samples, ambig_mask, repeat_mask, width, self_map, one_step })
        .boxed()
}

pub struct Mat {
    pub reference: Vec<Vec<u8>>,
    pub samples: Vec<Sample>,
}

/// the case with every sample under its own name (VCF cannot represent two samples of one name)
pub fn materialise_unique_names(c: &Case) -> Mat {
    materialise_with(c, false)
}

pub fn materialise(c: &Case) -> Mat {
    materialise_with(c, true)
}

fn materialise_with(c: &Case, allow_shared_names: bool) -> Mat {
    let (anc, samples) = gen::materialise_samples(&c.contigs, &c.samples, c.k);
    let mut out: Vec<Sample> = Vec::new();
    if c.self_map {
        let mut recs: Vec<Vec<u8>> = anc.iter().map(|r| model::upper(r)).collect();
        if recs.iter().all(|r| model::windows(r, c.k).is_empty()) {
            recs.push(gen::filler(c.k, 0));
        }
        out.push(("s0".into(), recs));
    } else {
        for (i, mut recs) in samples.into_iter().enumerate() {
            if recs.iter().all(|r| model::windows(r, c.k).is_empty()) {
                recs.push(gen::filler(c.k, i));
            }
            // unsorted names; plain characters only (they become VCF sample columns)
            out.push((format!("{}{i}", ["s", "b", "zz", "a", "M", "q", "c", "Y", "e", "k", "d", "x"][i % 12]), recs));
        }
        // a sixth of the multi-sample cases: two different samples under one name (skf route only; the
        // one-step route derives names from file names)
        let n0 = out.len();
        if allow_shared_names && n0 >= 2 && !(c.one_step && c.k == 17 && c.rc) && (c.k / 2 + 5 * n0 + c.contigs.len()) % 6 == 0 {
            out[n0 - 1].0 = out[0].0.clone();
        }
        // A quarter of the cases get a "hot site": at the centre of the first reference window the samples
        // carry, in turn, each of the three other bases, and every fourth sample two different bases (an
        // ambiguity code) - up to four different ALT alleles at one position. (A pure function of the case.)
        let n = out.len();
        if (c.k + 3 * n + c.contigs.len()) % 4 == 0 {
            if let Some(w) = anc.iter().find_map(|r| model::windows(r, c.k).into_iter().next().map(|(_, w)| w)) {
                let h = (c.k - 1) / 2;
                let ri = model::BASES.iter().position(|b| *b == w[h].to_ascii_uppercase()).unwrap_or(0);
                for (j, s) in out.iter_mut().enumerate() {
                    let mut r = model::upper(&w);
                    r[h] = model::BASES[(ri + 1 + j % 3) % 4];
                    s.1.push(r.clone());
                    if j % 4 == 3 {
                        r[h] = model::BASES[(ri + 1 + (j + 1) % 3) % 4];
                        s.1.push(r);
                    }
                }
            }
        }
    }
    Mat { reference: anc, samples: out }
}

pub fn rc_code(c: u8) -> u8 {
    model::comp_symbol(c)
}

/// (contig, centre, canonical arms, is_rc) of every reference window
pub fn ref_kmers(reference: &[Vec<u8>], k: usize, rc: bool) -> Vec<(usize, usize, Vec<u8>, bool)> {
    let h = (k - 1) / 2;
    let mut v = Vec::new();
    for (ci, c) in reference.iter().enumerate() {
        for (i, w) in model::windows(c, k) {
            let cn = model::canon(&w, rc);
            v.push((ci, i + h, cn.arms, cn.is_rc));
        }
    }
    v
}

/// the documented map alignment, one concatenated sequence per sample
pub fn model_map(reference: &[Vec<u8>], dicts: &[SampleDict], k: usize, rc: bool, ambig_mask: bool, repeat_mask: bool) -> Vec<Vec<u8>> {
    let h = (k - 1) / 2;
    let refk = ref_kmers(reference, k, rc);
    let mut cnt: BTreeMap<&Vec<u8>, usize> = BTreeMap::new();
    for (_, _, a, _) in &refk {
        *cnt.entry(a).or_insert(0) += 1;
    }
    // which reference windows have a split k-mer that occurs more than once (looked up once, used for every sample)
    let repeated: Vec<bool> = if repeat_mask { refk.iter().map(|(_, _, a, _)| cnt[a] > 1).collect() } else { Vec::new() };
    let mut outs = Vec::new();
    for d in dicts {
        let mut out: Vec<Vec<u8>> = reference.iter().map(|c| vec![b'-'; c.len()]).collect();
        let mut mid: Vec<Vec<Option<u8>>> = reference.iter().map(|c| vec![None; c.len()]).collect();
        for (ci, p, arms, isrc) in &refk {
            if let Some(m) = d.get(arms) {
                let mut b = model::code_of_mask(*m);
                if *isrc {
                    b = rc_code(b);
                }
                if ambig_mask && !model::is_acgt(b) {
                    b = b'N';
                }
                mid[*ci][*p] = Some(b);
                for q in (p - h)..=(p + h) {
                    out[*ci][q] = reference[*ci][q].to_ascii_uppercase();
                }
            }
        }
        for ci in 0..reference.len() {
            for p in 0..reference[ci].len() {
                if let Some(b) = mid[ci][p] {
                    out[ci][p] = b;
                }
            }
        }
        if repeat_mask {
            for (ri, (ci, p, _arms, _)) in refk.iter().enumerate() {
                if repeated[ri] {
                    for q in (p - h)..=(p + h) {
                        if out[*ci][q] != b'-' {
                            out[*ci][q] = b'N';
                        }
                    }
                }
            }
        }
        outs.push(out.concat());
    }
    outs
}

/// contig names, deliberately not in lexicographic order (outputs must follow the reference's order)
/// Every fourth name looks like a region cut out of a longer sequence (`samtools faidx ref.fa chr:1001-1120` names
/// its output that way), with coordinates that fit the record's length or do not: a name is a name.
pub fn contig_names(reference: &[Vec<u8>]) -> Vec<String> {
    reference
        .iter()
        .enumerate()
        .map(|(i, r)| {
            let base = format!("{}_ctg{i}", ["z", "a", "m", "B", "k"][i % 5]);
            match i % 4 {
                1 if !r.is_empty() => format!("{base}:{}-{}", 1001 + 7 * i, 1000 + 7 * i + r.len()),
                3 => format!("{base}:{}-{}", 10 + i, 12 + i + r.len()),
                _ => base,
            }
        })
        .collect()
}

pub struct MapRun {
    pub refused: bool,
    pub names: Vec<String>,
    pub seqs: Vec<Vec<u8>>,
    pub stdout: String,
    pub err: String,
}

/// write inputs, build, and run `ska map` with the case's flags in the given format
pub fn run_map(ctx: &Ctx, dir: &std::path::Path, c: &Case, m: &Mat, vcf: bool) -> Result<MapRun, Outcome> {
    let names = contig_names(&m.reference);
    // FASTA headers may carry a description after the name; it is not part of the contig name
    let headers: Vec<String> = names.iter().enumerate().map(|(i, n)| if (i + c.k / 2) % 2 == 0 { format!("{n} len={} some description", m.reference[i].len()) } else { n.clone() }).collect();
    // alignment output does not name contigs: there the records of a reference may share the first word of
    // their headers (">contig 1", ">contig 2"); every record still counts
    let headers: Vec<String> = if !vcf && (c.k / 2 + m.reference.len()) % 4 == 0 { (0..names.len()).map(|i| format!("contig {i} of {}", names.len())).collect() } else { headers };
    // a blank or a tab between '>' and the name in some headers (hand-edited files): the name is the first word
    let headers: Vec<String> = headers.into_iter().enumerate().map(|(i, h)| if (i + c.k) % 5 == 0 { format!("{}{h}", if i % 2 == 0 { " " } else { "\t" }) } else { h }).collect();
    cli::write_fasta(&dir.join("ref.fa"), &headers, &m.reference, c.width.map(|w| w as usize));
    let one_step = c.one_step && c.k == 17 && c.rc && m.samples.len() >= 2;
    let mut args: Vec<String> = vec!["map".into(), "ref.fa".into()];
    if one_step {
        for (n, recs) in m.samples.iter() {
            // one-step route: the sample name is the file's base name
            let f = format!("{n}.fa");
            cli::write_fasta_auto(&dir.join(&f), recs, None);
            args.push(f);
        }
    } else {
        if !dir.join("x.skf").exists() {
            must_ok(&build(ctx, dir, "x", &m.samples, c.k, c.rc, 1), "ska build")?;
        }
        args.push("x.skf".into());
    }
    if c.ambig_mask {
        args.push("--ambig-mask".into());
    }
    if c.repeat_mask {
        args.push("--repeat-mask".into());
    }
    if vcf {
        args.push("-f".into());
        args.push("vcf".into());
    }
    // the thread count must not matter (C11 decides that in general; here it varies as part of "any invocation")
    let threads = [1usize, 2, 3, 1, 4][(c.k / 2 + 3 * m.samples.len() + m.reference.iter().map(|r| r.len()).sum::<usize>() + vcf as usize) % 5];
    if threads > 1 {
        args.push("--threads".into());
        args.push(threads.to_string());
    }
    // half of the cases write to a file with -o instead of stdout
    let to_file = (c.k / 2 + m.samples.len() + c.ambig_mask as usize) % 2 == 1;
    // the name of the output file is a name (a VCF called after the reference, an alignment called *.vcf.aln, ...):
    // what is written is what -f says
    let out_name = if vcf { ["map_out.vcf", "ref.fa.vcf", "calls.aln.vcf", "ref.fasta.k.vcf"][(c.k / 2 + m.reference.len()) % 4] } else { ["map_out.aln", "ref.vcf.aln", "calls.vcf.fa", "map_out.txt"][(c.k / 2 + m.reference.len()) % 4] };
    if to_file {
        // the output file already exists and is long: it must be replaced, not overwritten from the start
        cli::plant_stale_output(&dir.join(out_name));
        args.push("-o".into());
        args.push(out_name.into());
    }
    let argv: Vec<&str> = args.iter().map(|s| s.as_str()).collect();
    let o = run_ska(ctx, dir, &argv);
    if let Some(e) = o.infra() {
        return Err(Outcome::Infra(e));
    }
    let stdout = if to_file && o.ok() {
        if !o.stdout.is_empty() {
            return Err(Outcome::Fail(format!("ska {} wrote {} bytes to stdout although -o was given", args.join(" "), o.stdout.len())));
        }
        std::fs::read_to_string(dir.join(out_name)).map_err(|e| Outcome::Fail(format!("ska {} succeeded but the -o file is missing: {e}", args.join(" "))))?
    } else {
        o.out_str()
    };
    let aln = if vcf { vec![] } else { model::parse_fasta(&stdout) };
    Ok(MapRun {
        refused: !o.ok(),
        names: aln.iter().map(|a| a.0.clone()).collect(),
        seqs: aln.into_iter().map(|a| a.1).collect(),
        stdout,
        err: o.err_tail(),
    })
}

pub struct Expect {
    pub dicts: Vec<SampleDict>,
    pub seqs: Vec<Vec<u8>>,
    pub any_window: bool,
    pub any_mapped: bool,
}

pub fn expect(c: &Case, m: &Mat) -> Expect {
    let dicts: Vec<SampleDict> = m.samples.iter().map(|(_, r)| model::build_sample(r, c.k, c.rc)).collect();
    let refk = ref_kmers(&m.reference, c.k, c.rc);
    let any_mapped = refk.iter().any(|(_, _, a, _)| dicts.iter().any(|d| d.contains_key(a)));
    let seqs = model_map(&m.reference, &dicts, c.k, c.rc, c.ambig_mask, c.repeat_mask);
    Expect { dicts, seqs, any_window: !refk.is_empty(), any_mapped }
}

fn check(c: &Case, ctx: &Ctx) -> Outcome {
    let m = materialise(c);
    let e = expect(c, &m);
    let dir = ctx.case_dir();
    let r: Result<Vec<&'static str>, Outcome> = (|| {
        let run = run_map(ctx, &dir, c, &m, false)?;
        if !e.any_window || !e.any_mapped {
            if !run.refused {
                return Err(Outcome::Fail(format!("map succeeded although {} (must be refused)", if !e.any_window { "the reference has no split k-mer" } else { "no reference split k-mer occurs in any sample" })));
            }
            return Ok(vec!["refusal_nothing_maps"]);
        }
        if run.refused {
            return Err(Outcome::Fail(format!("map failed although reference k-mers occur in the samples: {}", run.err)));
        }
        let exp_names: Vec<String> = m.samples.iter().map(|s| s.0.clone()).collect();
        if run.names != exp_names {
            return Err(Outcome::Fail(format!("sample names {:?}, expected {:?}", run.names, exp_names)));
        }
        let total: usize = m.reference.iter().map(|c| c.len()).sum();
        for (i, (g, x)) in run.seqs.iter().zip(e.seqs.iter()).enumerate() {
            if g.len() != total {
                return Err(Outcome::Fail(format!("sample {i}: output length {} != concatenated reference length {total}", g.len())));
            }
            if g != x {
                let pos = g.iter().zip(x.iter()).position(|(a, b)| a != b).unwrap_or(0);
                return Err(Outcome::Fail(format!("sample {i} differs from the model first at concatenated position {pos}:\n got      {}\n expected {}", lossy(g), lossy(x))));
            }
        }
        let mut cl = vec![];
        let mapped = e.seqs.iter().any(|s| s.iter().any(|b| *b != b'-'));
        let unmapped = e.seqs.iter().any(|s| s.iter().any(|b| *b == b'-'));
        if mapped && unmapped { cl.push("mapped_and_unmapped"); }
        let plain = model_map(&m.reference, &e.dicts, c.k, c.rc, false, false);
        if plain != e.seqs { cl.push("mask_changes_output"); }
        if c.repeat_mask && plain != model_map(&m.reference, &e.dicts, c.k, c.rc, c.ambig_mask, false) { cl.push("repeat_mask_effective"); }
        if m.reference.len() >= 2 && m.reference.iter().any(|r| r.len() < c.k) { cl.push("short_contig"); }
        if m.reference.iter().any(|r| r.is_empty()) { cl.push("empty_contig"); }
        if m.reference.iter().any(|r| r.iter().any(|b| b.is_ascii_lowercase())) { cl.push("lower_case_reference"); }
        if m.reference.iter().any(|r| r.iter().any(|b| matches!(b, b'N' | b'n'))) { cl.push("N_in_reference"); }
        if e.seqs.iter().any(|s| s.iter().any(|b| model::sym_is_ambig(*b) && *b != b'N')) { cl.push("ambiguity_codes_in_output"); }
        if c.one_step && c.k == 17 && c.rc && m.samples.len() >= 2 { cl.push("one_step_from_fasta"); }
        if c.k >= 33 { cl.push("128bit"); }
        if m.samples.len() >= 9 { cl.push(">=9_samples"); }
        if c.self_map {
            cl.push("self_map");
            // corollary: a repeat-free upper-case genome mapped against itself is reproduced exactly
            let refk = ref_kmers(&m.reference, c.k, c.rc);
            let mut arms: Vec<&Vec<u8>> = refk.iter().map(|x| &x.2).collect();
            arms.sort();
            let unique = arms.windows(2).all(|w| w[0] != w[1]);
            let no_selfrc = !c.rc || refk.iter().all(|x| model::revcomp(&x.2) != x.2);
            let clean = m.reference.iter().all(|r| r.len() >= c.k && r.iter().all(|b| model::is_acgt(b.to_ascii_uppercase())));
            if unique && no_selfrc && clean {
                cl.push("self_map_repeat_free");
                let want: Vec<u8> = m.reference.iter().flat_map(|r| model::upper(r)).collect();
                if run.seqs[0] != want {
                    return Err(Outcome::Fail(format!("repeat-free genome mapped against itself is not reproduced:\n got      {}\n expected {}", lossy(&run.seqs[0]), lossy(&want))));
                }
            }
        }
        Ok(cl)
    })();
    ctx.done(&dir);
    match r {
        Err(Outcome::Fail(msg)) => Outcome::Fail(format!(
            "k={} rc={} ambig_mask={} repeat_mask={} reference={:?} samples={}: {msg}",
            c.k, c.rc, c.ambig_mask, c.repeat_mask, m.reference.iter().map(|r| lossy(r)).collect::<Vec<_>>(), show_samples(&m.samples)
        )),
        Err(o) => o,
        Ok(cl) => {
            let nt = cl.contains(&"mapped_and_unmapped") || cl.contains(&"mask_changes_output") || cl.contains(&"short_contig");
            pass(nt, key_of(&(c.k, c.rc, c.ambig_mask, c.repeat_mask, &m.reference, &m.samples)), cl)
        }
    }
}

// ---- references longer than 65536 bases (the reference-free generators stay far below that)

#[derive(Clone, Debug, Serialize, Deserialize)]
pub struct LargeCase {
    pub k_sel: u8,
    pub rc: bool,
    pub content_seed: u64,
    /// first contig length = 65_300 + extra (crosses 2^16 in most cases)
    pub extra: u16,
    pub second_len: u16,
    /// substitutions in the sample: (position selector over the concatenated reference, base)
    pub snps: Vec<(u32, u8)>,
    pub ambig_mask: bool,
    pub repeat_mask: bool,
    /// instead of one long contig: more than 65536 contigs (two real ones around 65540 tiny ones)
    #[serde(default)]
    pub many_contigs: bool,
}

pub fn large_strategy() -> BoxedStrategy<LargeCase> {
    (0u8..4, any::<bool>(), any::<u64>(), 0u16..2000, 20u16..600, proptest::collection::vec((any::<u32>(), 0u8..4), 1..12), prop::bool::weighted(0.3), prop::bool::weighted(0.3), prop::bool::weighted(0.25))
        .prop_map(|(k_sel, rc, content_seed, extra, second_len, snps, ambig_mask, repeat_mask, many_contigs)| LargeCase { k_sel, rc, content_seed, extra, second_len, snps, ambig_mask, repeat_mask, many_contigs })
        .boxed()
}

pub fn large_materialise(c: &LargeCase) -> (Case, Mat) {
    let k = [15usize, 17, 31, 33][c.k_sel as usize % 4];
    let mut st = c.content_seed;
    let mut next = || {
        st = st.wrapping_add(0x9E37_79B9_7F4A_7C15);
        crate::engine::splitmix64(st)
    };
    let rand_seq = |n: usize, next: &mut dyn FnMut() -> u64| -> Vec<u8> { (0..n).map(|_| model::BASES[(next() & 3) as usize]).collect() };
    let (reference, real): (Vec<Vec<u8>>, Vec<usize>) = if c.many_contigs {
        // contig index of the last real contig exceeds 65536
        let first = rand_seq(150 + c.extra as usize % 300, &mut next);
        let mut v = vec![first];
        for _ in 0..(65_536 + c.extra as usize % 7) {
            let l = 1 + (next() % 6) as usize;
            v.push(rand_seq(l, &mut next));
        }
        v.push(rand_seq(100 + c.second_len as usize, &mut next));
        let last = v.len() - 1;
        (v, vec![0, last])
    } else {
        // a quarter of the cases: the total reference length is exactly 2^16 or 2^17 (writers that work in
        // blocks of columns meet their block size exactly)
        let l1 = match c.extra % 8 {
            0 => 65_536 - c.second_len as usize,
            4 => 131_072 - c.second_len as usize,
            _ => 65_300 + c.extra as usize,
        };
        (vec![rand_seq(l1, &mut next), rand_seq(c.second_len as usize, &mut next)], vec![0, 1])
    };
    let total: usize = reference.iter().map(|r| r.len()).sum();
    // two samples carrying the two real contigs: one with all substitutions, one with half of them
    let mut s0: Vec<Vec<u8>> = real.iter().map(|i| reference[*i].clone()).collect();
    let mut s1 = s0.clone();
    let (la, lb) = (s0[0].len(), s0[1].len());
    for (i, (ps, b)) in c.snps.iter().enumerate() {
        // half of the selectors are concentrated around position 65536 / in the last contig
        let (ci, q) = if c.many_contigs || la <= 65_400 {
            if i % 2 == 0 { (1, *ps as usize % lb.max(1)) } else { (0, *ps as usize % la) }
        } else {
            let span = la + lb;
            let p = if i % 2 == 0 { (65_400 + (*ps as usize % (span - 65_400 + 200))).saturating_sub(200).min(span - 1) } else { *ps as usize % span };
            if p < la { (0, p) } else { (1, p - la) }
        };
        if s0[ci].is_empty() {
            continue;
        }
        let mut nb = model::BASES[*b as usize & 3];
        if nb == s0[ci][q] {
            nb = model::comp(nb);
        }
        s0[ci][q] = nb;
        if i % 2 == 0 {
            s1[ci][q] = nb;
        }
    }
    let _ = total;
    let case = Case { k, rc: c.rc, contigs: vec![], samples: vec![], ambig_mask: c.ambig_mask, repeat_mask: c.repeat_mask, width: Some(60), self_map: false, one_step: false };
    (case, Mat { reference, samples: vec![("s0".to_string(), s0), ("s1".to_string(), s1)] })
}

fn check_large(lc: &LargeCase, ctx: &Ctx) -> Outcome {
    let (c, m) = large_materialise(lc);
    let e = expect(&c, &m);
    let dir = ctx.case_dir();
    let r: Result<(), Outcome> = (|| {
        let run = run_map(ctx, &dir, &c, &m, false)?;
        if run.refused {
            return Err(Outcome::Fail(format!("map of a {}-base reference failed: {}", e.seqs[0].len(), run.err)));
        }
        for (i, (g, x)) in run.seqs.iter().zip(e.seqs.iter()).enumerate() {
            if g != x {
                let pos = g.iter().zip(x.iter()).position(|(a, b)| a != b).unwrap_or(g.len().min(x.len()));
                return Err(Outcome::Fail(format!("sample {i}: output (length {}) differs from the model (length {}) first at concatenated position {pos}: got {:?} expected {:?}", g.len(), x.len(), lossy(&g[pos.saturating_sub(10)..(pos + 10).min(g.len())]), lossy(&x[pos.saturating_sub(10)..(pos + 10).min(x.len())]))));
            }
        }
        Ok(())
    })();
    ctx.done(&dir);
    match r {
        Err(Outcome::Fail(msg)) => Outcome::Fail(format!("k={} rc={} content_seed={} contigs={} first/last lengths=[{}, {}] snps={:?} ambig_mask={} repeat_mask={}: {msg}", c.k, c.rc, lc.content_seed, m.reference.len(), m.reference[0].len(), m.reference[m.reference.len() - 1].len(), lc.snps, c.ambig_mask, c.repeat_mask)),
        Err(o) => o,
        Ok(()) => pass(true, key_of(&(c.k, c.rc, lc.content_seed, lc.extra, lc.second_len, &lc.snps, lc.many_contigs)), vec![if lc.many_contigs { ">65536_contigs" } else if m.reference[0].len() > 65536 { "first_contig>65536" } else { "total>65536" }]),
    }
}

// ---- one contig of more than 2^20 bases; every coordinate around base 2^20 is the site of a substitution in some sample

#[derive(Clone, Debug, Serialize, Deserialize)]
pub struct HugeCase {
    pub seed: u64,
    pub k_sel: u8,
    pub extra: u16,
    pub rc: bool,
    pub repeat_mask: bool,
    /// the boundary that is scanned: base 2^20 (false) or base 2^16 (true; a contig of 2^16 + 300.. bases)
    #[serde(default)]
    pub at_64k: bool,
}

fn huge_strategy() -> BoxedStrategy<HugeCase> {
    (any::<u64>(), 0u8..4, 0u16..3000, any::<bool>(), prop::bool::weighted(0.3), prop::bool::weighted(0.6))
        .prop_map(|(seed, k_sel, extra, rc, repeat_mask, at_64k)| HugeCase { seed, k_sel, extra, rc, repeat_mask, at_64k })
        .boxed()
}

fn huge_materialise(c: &HugeCase) -> (Case, Mat) {
    let k = [15usize, 17, 31, 33][c.k_sel as usize % 4];
    let b_: usize = if c.at_64k { 1 << 16 } else { 1 << 20 };
    #[allow(non_snake_case)]
    let B = b_;
    let mut x = c.seed | 1;
    let reference: Vec<u8> = (0..B + 300 + c.extra as usize).map(|_| { x = crate::engine::splitmix64(x); model::BASES[(x >> 37) as usize & 3] }).collect();
    // k small samples (the region around base 2^20 only), sample j with substitutions exactly k apart at phase j:
    // every coordinate from 2^20 - 2k to 2^20 + 3k is the middle of a matched window of exactly one sample
    let (lo, hi) = (B - 3 * k - 50, B + 4 * k + 50);
    let mut samples = Vec::new();
    for j in 0..k {
        let mut s = reference[lo..hi].to_vec();
        for m in 0..5 {
            let p = B - 2 * k + j + m * k - lo;
            s[p] = model::comp(s[p]);
        }
        samples.push((format!("h{j}"), vec![s]));
    }
    let case = Case { k, rc: c.rc, contigs: vec![], samples: vec![], ambig_mask: false, repeat_mask: c.repeat_mask, width: Some(60), self_map: false, one_step: false };
    (case, Mat { reference: vec![reference], samples })
}

fn check_huge(hc: &HugeCase, ctx: &Ctx) -> Outcome {
    let (c, m) = huge_materialise(hc);
    let e = expect(&c, &m);
    let dir = ctx.case_dir();
    let r: Result<(), Outcome> = (|| {
        let run = run_map(ctx, &dir, &c, &m, false)?;
        if run.refused {
            return Err(Outcome::Fail(format!("map of a {}-base contig failed: {}", m.reference[0].len(), run.err)));
        }
        for (i, (g, x)) in run.seqs.iter().zip(e.seqs.iter()).enumerate() {
            if g != x {
                let pos = g.iter().zip(x.iter()).position(|(a, b)| a != b).unwrap_or(g.len().min(x.len()));
                return Err(Outcome::Fail(format!("sample {i}: output (length {}) differs from the model (length {}) first at position {pos} (scanned boundary {:+}): got {:?} expected {:?}", g.len(), x.len(), pos as i64 - if hc.at_64k { 1i64 << 16 } else { 1i64 << 20 }, lossy(&g[pos.saturating_sub(10)..(pos + 10).min(g.len())]), lossy(&x[pos.saturating_sub(10)..(pos + 10).min(x.len())]))));
            }
        }
        Ok(())
    })();
    ctx.done(&dir);
    match r {
        Err(Outcome::Fail(msg)) => Outcome::Fail(format!("k={} rc={} seed={} contig length={} repeat_mask={}: {msg}", c.k, c.rc, hc.seed, m.reference[0].len(), c.repeat_mask)),
        Err(o) => o,
        Ok(()) => pass(true, key_of(&(c.k, c.rc, hc.seed, hc.extra, hc.repeat_mask, hc.at_64k)), vec![if c.k >= 33 { "128bit" } else { "64bit" }, if hc.at_64k { "boundary_2^16" } else { "boundary_2^20" }]),
    }
}

// ---- AlnWriter alone, in-process

#[derive(Clone, Debug, Serialize, Deserialize)]
pub struct WriterCase {
    pub k: usize,
    pub contigs: Vec<Vec<u8>>,
    /// candidate matches: (contig selector, position selector, symbol index into SYMS)
    pub matches: Vec<(u16, u16, u8)>,
    pub repeats: Vec<u16>,
    pub mask_ambig: bool,
}

const SYMS: [u8; 15] = *b"ACGTRYSWKMBDHVN";

fn writer_strategy() -> BoxedStrategy<WriterCase> {
    gen::k_strategy()
        .prop_flat_map(|k| {
            (
                Just(k),
                proptest::collection::vec(prop_oneof![3 => proptest::collection::vec(0u8..4, k..(3 * k + 10)), 1 => proptest::collection::vec(0u8..4, 1..k)], 1..4),
                proptest::collection::vec((any::<u16>(), any::<u16>(), prop_oneof![4 => 0u8..4, 1 => 4u8..15]), 0..25),
                proptest::collection::vec(any::<u16>(), 0..12),
                any::<bool>(),
            )
        })
        .prop_map(|(k, contigs, matches, repeats, mask_ambig)| WriterCase { k, contigs, matches, repeats, mask_ambig })
        .boxed()
}

fn check_writer(c: &WriterCase, _ctx: &Ctx) -> Outcome {
    use ska::ska_ref::aln_writer::AlnWriter;
    let k = c.k;
    let h = (k - 1) / 2;
    let reference: Vec<Vec<u8>> = c.contigs.iter().map(|v| gen::bases_to_seq(v)).collect();
    let long: Vec<usize> = (0..reference.len()).filter(|i| reference[*i].len() >= k).collect();
    let mut ms: BTreeMap<(usize, usize), u8> = BTreeMap::new();
    if !long.is_empty() {
        for (cs, ps, s) in &c.matches {
            let ci = long[gen::idx(*cs, long.len())];
            let p = h + gen::idx(*ps, reference[ci].len() - k + 1);
            ms.insert((ci, p), SYMS[*s as usize % 15]);
        }
    }
    let total: usize = reference.iter().map(|r| r.len()).sum();
    let mut reps: Vec<usize> = c.repeats.iter().map(|r| gen::idx(*r, total)).collect();
    reps.sort();
    reps.dedup();
    // model
    let mut offs = vec![0usize];
    for r in &reference {
        offs.push(offs.last().unwrap() + r.len());
    }
    let mut exp = vec![b'-'; total];
    for ((ci, p), _) in &ms {
        for q in (p - h)..=(p + h) {
            exp[offs[*ci] + q] = reference[*ci][q];
        }
    }
    for ((ci, p), b) in &ms {
        exp[offs[*ci] + p] = if c.mask_ambig && !model::is_acgt(*b) { b'N' } else { *b };
    }
    for r in &reps {
        if exp[*r] != b'-' {
            exp[*r] = b'N';
        }
    }
    let got: Vec<u8> = {
        let mut w = AlnWriter::new(&reference, k, &reps, c.mask_ambig);
        if w.total_size() != total {
            return Outcome::Fail(format!("total_size {} != {total}", w.total_size()));
        }
        for ((ci, p), b) in &ms {
            w.write_split_kmer(*p, *ci, *b);
        }
        w.finalise();
        let mut w2 = w.clone();
        w2.get_seq().to_vec()
    };
    if got != exp {
        return Outcome::Fail(format!(
            "k={k} contigs={:?} matches={:?} repeat_coords={:?} mask_ambig={}:\n got      {}\n expected {}",
            reference.iter().map(|r| lossy(r)).collect::<Vec<_>>(), ms.iter().map(|((c, p), b)| (*c, *p, *b as char)).collect::<Vec<_>>(), reps, c.mask_ambig, lossy(&got), lossy(&exp)
        ));
    }
    let mut cl = vec![];
    if reference.len() >= 2 { cl.push("multi_contig"); }
    if reference.iter().any(|r| r.len() < k) && reference.len() >= 2 { cl.push("short_contig"); }
    if ms.keys().zip(ms.keys().skip(1)).any(|(a, b)| a.0 == b.0 && b.1 - a.1 <= h) { cl.push("overlapping_matches"); }
    if ms.keys().zip(ms.keys().skip(1)).any(|(a, b)| a.0 == b.0 && b.1 - a.1 > 2 * h + 1) { cl.push("gap_between_matches"); }
    pass(ms.len() >= 2, key_of(&(k, &reference, ms.iter().collect::<Vec<_>>(), &reps, c.mask_ambig)), cl)
}

const RULE: &str = "generated: reference of 1-4 contigs (random, op-script records with N runs / lower case / repeats copied within and across contigs in either orientation, contigs shorter than k), 1-4 (sometimes 9-12) samples derived per contig by SNPs/indels/N, substrings, reverse complement, private records and ambiguity-producing copies, or (10%) the reference itself; all k (boundary-weighted), both strand modes, --ambig-mask and --repeat-mask independently, wrapped or unwrapped reference, skf route and (k=17) one-step FASTA route. Oracle: every sample's output string == model (middle base if the reference k-mer centred there is in the sample, strand-corrected; else upper-case reference base within (k-1)/2 of a matched centre; else '-'; masks), names in order, length == concatenated reference; refusal iff nothing maps; repeat-free self-map reproduced exactly. Non-trivial: >=1 mapped and >=1 unmapped position, or a mask that changes the output, or >=2 contigs with one shorter than k.";

pub fn show(c: &Case) -> serde_json::Value {
    let m = materialise(c);
    json!({"k": c.k, "two_strand": c.rc, "ambig_mask": c.ambig_mask, "repeat_mask": c.repeat_mask, "self_map": c.self_map,
        "reference": m.reference.iter().map(|r| lossy(r)).collect::<Vec<_>>(),
        "samples": m.samples.iter().map(|(n, r)| json!({"name": n, "records": r.iter().map(|x| lossy(x)).collect::<Vec<_>>()})).collect::<Vec<_>>()})
}

fn stages(tier: Tier) -> Vec<Box<dyn Stage>> {
    vec![
        gen_stage_show("map", RULE, tier.pick(4000, 48_000), 250, case_strategy, check, show),
        gen_stage_show("large_reference", "generated: a random first contig of 65300-67300 bases plus a second contig of 20-600 bases, or (25%) two real contigs around 65536-65542 contigs of 1-6 bases (content a pure function of content_seed), two samples carrying 1-11 substitutions (half of them placed around concatenated position 65536 and in the second contig), k in {15,17,31,33}, masks; output == model for every sample. Every case non-trivial.", tier.pick(16, 320), 10, large_strategy, check_large, |c| json!({"k_index": c.k_sel % 4, "first_contig": 65_300 + c.extra as usize, "second_contig": c.second_len, "snps": c.snps.len()})),
        gen_stage_show("huge_contig", "generated: one random contig of B + 300..3300 bases, B = 2^16 (60%) or 2^20 (content a pure function of the seed); k samples that hold the region around base B only, sample j with substitutions exactly k apart at phase j, so that every coordinate from B - 2k to B + 3k is the middle of a matched window of exactly one sample; --threads 1-4; k in {15,17,31,33}, both strand modes, with and without --repeat-mask; output == model for every sample. Every case non-trivial.", tier.pick(8, 48), 2, huge_strategy, check_huge, |c| json!({"seed": c.seed, "k_index": c.k_sel % 4, "contig_length": (if c.at_64k { 1usize << 16 } else { 1usize << 20 }) + 300 + c.extra as usize, "rc": c.rc, "repeat_mask": c.repeat_mask})),
        gen_stage_show("alnwriter", "generated: AlnWriter alone (in-process) on 1-3 contigs with an increasing list of (contig, position, symbol) matches incl. ambiguity codes, arbitrary repeat coordinates and the ambiguity mask; output == union-of-windows model. Non-trivial: >=2 matches.", tier.pick(40_000, 800_000), 1500, writer_strategy, check_writer, |c| json!({"k": c.k, "contig_lengths": c.contigs.iter().map(|x| x.len()).collect::<Vec<_>>(), "matches": c.matches.len(), "repeats": c.repeats.len()})),
    ]
}

pub fn def() -> PropDef {
    PropDef {
        id: "C04",
        level: "exploration",
        assumptions: &[
            "ska map is observed through the CLI only (RefSka::write_aln configures rayon's global pool on every call)",
            "reference and samples over ACGTN in either case; contig names [A-Za-z0-9_]+",
            "C01's model for what each sample contains",
        ],
        stages,
        post: None,
    }
}
