//! C03 — reference-free alignment recovers exactly the true SNP columns.

use proptest::prelude::*;
use serde::{Deserialize, Serialize};
use serde_json::json;

use super::common::*;
use super::PropDef;
use crate::cli::{self, run_ska};
use crate::engine::{gen_stage_show, key_of, pass, Ctx, Outcome, Stage, Tier};
use crate::gen;
use crate::model;

#[derive(Clone, Debug, Serialize, Deserialize)]
pub struct Site {
    pub contig: u16,
    pub pos: u16,
    /// allele rotation per sample (cyclic): allele = (ancestral + rot) % 4 ... 0 = ancestral
    pub rots: Vec<u8>,
}

#[derive(Clone, Debug, Serialize, Deserialize)]
pub struct Case {
    pub k: usize,
    pub n_samples: usize,
    /// per contig: (length selector, material)
    pub contigs: Vec<(u16, Vec<u8>)>,
    pub sites: Vec<Site>,
    /// per sample (cyclic): orientation bits and shuffle keys
    pub orient: Vec<(u8, u16)>,
    /// the first contig has length exactly k with one site in its centre
    pub exact_k_contig: bool,
    pub one_step: bool,
    /// line width of each sample's FASTA (cyclic; 0 = unwrapped)
    #[serde(default)]
    pub wrap: Vec<u8>,
    /// soft-masking: cyclic lower-case mask applied to every sample's records (case must not matter)
    #[serde(default)]
    pub lower: Vec<bool>,
}

fn case_strategy() -> BoxedStrategy<Case> {
    gen::k_strategy()
        .prop_flat_map(|k| {
            (
                Just(k),
                2usize..=10,
                proptest::collection::vec((any::<u16>(), proptest::collection::vec(0u8..4, 16..64)), 1..4),
                proptest::collection::vec((any::<u16>(), any::<u16>(), prop_oneof![3 => proptest::collection::vec(0u8..4, 2..10), 1 => Just(vec![0u8, 0])]).prop_map(|(contig, pos, rots)| Site { contig, pos, rots }), 1..7),
                proptest::collection::vec((any::<u8>(), any::<u16>()), 1..6),
                prop::bool::weighted(0.15),
                prop::bool::weighted(0.5),
                proptest::collection::vec(prop_oneof![2 => Just(0u8), 1 => 1u8..90], 1..4),
                prop_oneof![2 => Just(Vec::<bool>::new()), 1 => proptest::collection::vec(any::<bool>(), 3..40)],
            )
        })
        .prop_map(|(k, n_samples, contigs, sites, orient, exact_k_contig, one_step, wrap, lower)| Case { k, n_samples, contigs, sites, orient, exact_k_contig, one_step, wrap, lower })
        .boxed()
}

pub struct Mat {
    pub ancestor: Vec<Vec<u8>>,
    /// (contig, pos, allele per sample)
    pub sites: Vec<(usize, usize, Vec<u8>)>,
    pub samples: Vec<Sample>,
}

fn materialise(c: &Case) -> Result<Mat, String> {
    let k = c.k;
    let h = (k - 1) / 2;
    let mut seen = std::collections::HashSet::new();
    let mut ancestor = Vec::new();
    // keep total length moderate at small k so that unique split k-mers exist
    let cap = if k <= 7 { k + 12 } else { 5 * k };
    for (ci, (lsel, mat)) in c.contigs.iter().enumerate() {
        let len = if ci == 0 && c.exact_k_contig { k } else { k + gen::idx(*lsel, cap - k + 1) };
        // a third of the contigs start or end with a short run of one base (A or T): packed k-mers with
        // leading / trailing zero or all-one bit groups (a pure function of the case)
        let mut mat = mat.clone();
        let sel = k + mat.len() + ci;
        if sel % 3 == 0 && !mat.is_empty() {
            let run = (2 + sel % 7).min(mat.len());
            let fill = if sel % 2 == 0 { 0u8 } else { 3u8 }; // BASES index: A or T
            let n = mat.len();
            for i in 0..run {
                if sel % 5 < 3 { mat[i] = fill; } else { mat[(len - 1 - i.min(len - 1)) % n] = fill; }
            }
        }
        let mat = &mat;
        match gen::unique_seq(mat, len, k, true, &mut seen) {
            Some(s) => ancestor.push(s),
            None => return Err("no unique extension".into()),
        }
    }
    // sites: > h apart, >= h from contig ends
    let mut placed: Vec<(usize, usize, Vec<u8>)> = Vec::new();
    for (si, s) in c.sites.iter().enumerate() {
        let ci = if si == 0 && c.exact_k_contig { 0 } else { gen::idx(s.contig, ancestor.len()) };
        let len = ancestor[ci].len();
        // a quarter of the sites sit at the minimum distance from a contig end (left or right)
        let p = match s.pos % 8 { 0 => h, 1 => len - h - 1, _ => h + gen::idx(s.pos, len - 2 * h) };
        if placed.iter().any(|(c2, p2, _)| *c2 == ci && (p as i64 - *p2 as i64).unsigned_abs() as usize <= h) {
            continue;
        }
        let anc_base = ancestor[ci][p];
        let ai = model::BASES.iter().position(|b| *b == anc_base).unwrap();
        let mut alleles: Vec<u8> = (0..c.n_samples).map(|j| model::BASES[(ai + s.rots[j % s.rots.len()] as usize) % 4]).collect();
        if alleles.iter().all(|a| *a == alleles[0]) {
            // a site at which exactly one sample deviates: any sample, also the last ones
            let j = (s.pos as usize / 7 + si) % c.n_samples;
            alleles[j] = model::BASES[(model::BASES.iter().position(|b| *b == alleles[j]).unwrap() + 1 + si % 3) % 4];
        }
        placed.push((ci, p, alleles));
    }
    if placed.is_empty() {
        return Err("no site".into());
    }
    // samples
    let mut samples = Vec::new();
    let mut items: Vec<(Vec<u8>, Vec<u64>)> = Vec::new();
    for j in 0..c.n_samples {
        let mut recs: Vec<Vec<u8>> = ancestor.clone();
        for (ci, p, alleles) in &placed {
            recs[*ci][*p] = alleles[j];
        }
        // precondition bookkeeping: window origin = (contig, start, bases at the sites it covers)
        for (ci, r) in recs.iter().enumerate() {
            let mut origins = Vec::new();
            for st in 0..=(r.len() - k) {
                let mut o: u64 = ((ci as u64) << 40) | ((st as u64) << 16);
                // arms context: alleles of sites inside the window other than its middle
                let mut ctx: u64 = 0;
                for (c2, p2, al) in &placed {
                    if *c2 == ci && *p2 >= st && *p2 < st + k && *p2 != st + h {
                        ctx = ctx * 5 + 1 + model::BASES.iter().position(|b| *b == al[j]).unwrap() as u64;
                    }
                }
                o |= ctx & 0xffff;
                origins.push(o);
            }
            items.push((r.clone(), origins));
        }
        let (ob, sk) = c.orient[j % c.orient.len()];
        let mut order: Vec<usize> = (0..recs.len()).collect();
        order.sort_by_key(|i| (sk.wrapping_mul(*i as u16 + 1).wrapping_add(sk >> 3), *i));
        let mut recs2: Vec<Vec<u8>> = order.iter().map(|i| if (ob >> (i % 8)) & 1 == 1 { model::revcomp(&recs[*i]) } else { recs[*i].clone() }).collect();
        if !c.lower.is_empty() {
            for r in recs2.iter_mut() {
                for (q, b) in r.iter_mut().enumerate() {
                    if c.lower[(q + j) % c.lower.len()] {
                        *b = b.to_ascii_lowercase();
                    }
                }
            }
        }
        // every third sample also carries a contig shorter than k (an unplaced fragment, an empty record
        // or a few bases): it holds no split k-mer and must not affect anything, wherever it stands
        if (j + k) % 3 == 0 {
            let frag: Vec<u8> = gen::filler(k, j)[..(sk as usize + j) % k].to_vec();
            let at = (sk as usize >> 2) % (recs2.len() + 1);
            recs2.insert(at, frag);
        }
        // names deliberately not in sorted order (the output must follow input order, not name order)
        samples.push((format!("{}{j}", ["m", "c", "x", "a", "t", "g", "p", "e", "z", "k"][j % 10]), recs2));
    }
    if !gen::words_consistent(&items, k, true) {
        return Err("split k-mers not unique after substitution".into());
    }
    Ok(Mat { ancestor, sites: placed, samples })
}

fn width_of(c: &Case, sample: usize) -> Option<usize> {
    if c.wrap.is_empty() {
        return None;
    }
    match c.wrap[sample % c.wrap.len()] {
        0 => None,
        w => Some(w as usize),
    }
}

fn check(c: &Case, ctx: &Ctx) -> Outcome {
    let m = match materialise(c) {
        Ok(m) => m,
        Err(e) => return Outcome::Reject(e),
    };
    let k = c.k;
    let dir = ctx.case_dir();
    let one_step = c.one_step && k == 17;
    // names given in a file list are labels: any text without white space (isolate numbers written `#1`, lane ids
    // such as `6925_3#2`); names derived from file paths (the one-step route) stay as they are
    // one-step route, every other case with >= 3 samples: the last two files are two assemblers' outputs of the same
    // name in different directories (runA/contigs.fa, runB/contigs.fa); both samples are then called `contigs`
    let same_base = one_step && m.samples.len() >= 3 && (m.samples.len() + m.sites.len()) % 2 == 0;
    let ns = m.samples.len();
    let disp: Vec<String> = m.samples.iter().enumerate().map(|(j, (n, _))| if same_base && j + 2 >= ns { "contigs".to_string() } else if one_step { n.clone() } else if j == 0 && k % 4 != 3 { ["sample", "name", "Sample"][(k / 4 + m.samples.len()) % 3].to_string() } else if j == 1 { format!("#{n}") } else if j == 3 { format!("6925_{n}#2") } else { n.clone() }).collect();
    let r: Result<(), Outcome> = (|| {
        let o = if one_step {
            let mut args: Vec<String> = vec!["align".into(), "--min-freq".into(), "1".into()];
            for (si, (n, recs)) in m.samples.iter().enumerate() {
                let f = if same_base && si + 2 >= ns {
                    std::fs::create_dir_all(dir.join(format!("run{si}"))).unwrap();
                    format!("run{si}/contigs.fa")
                } else {
                    // the sample name is the file name without its extension, however the extension is capitalised
                    format!("{n}{}", [".fa", ".FA", ".fasta", ".FASTA", ".Fa"][(si + m.sites.len()) % 5])
                };
                if !same_base && (si + c.k + m.sites.len()) % 4 == 2 {
                    // a staged input: the file that is named is a symbolic link to an assembler's output of another
                    // name; the sample is called after the path that was given
                    let store = format!("store/run_{si}");
                    std::fs::create_dir_all(dir.join(&store)).unwrap();
                    cli::write_fasta_auto(&dir.join(&store).join("contigs.fasta"), recs, width_of(c, si));
                    std::os::unix::fs::symlink(dir.join(&store).join("contigs.fasta"), dir.join(&f)).unwrap();
                } else {
                    cli::write_fasta_auto(&dir.join(&f), recs, width_of(c, si));
                }
                args.push(f);
            }
            let argv: Vec<&str> = args.iter().map(|s| s.as_str()).collect();
            run_ska(ctx, &dir, &argv)
        } else {
            let mut list = String::new();
            for (si, (n, recs)) in m.samples.iter().enumerate() {
                let f = dir.join(format!("{n}.fa"));
                cli::write_fasta_auto(&f, recs, width_of(c, si));
                list += &format!("{}\t{}\n", disp[si], cli::p(&f));
            }
            std::fs::write(dir.join("list.txt"), list).unwrap();
            let ks = k.to_string();
            must_ok(&run_ska(ctx, &dir, &["build", "-f", "list.txt", "-o", "x", "-k", &ks]), "ska build")?;
            run_ska(ctx, &dir, &["align", "--min-freq", "1", "x.skf"])
        };
        must_ok(&o, "ska align --min-freq 1")?;
        let aln = model::parse_fasta(&o.out_str());
        let names: Vec<String> = aln.iter().map(|a| a.0.clone()).collect();
        let exp_names: Vec<String> = disp.clone();
        if names != exp_names {
            return Err(Outcome::Fail(format!("names {:?}, expected {:?}", names, exp_names)));
        }
        let cols = model::aln_columns(&aln).map_err(Outcome::Fail)?;
        let mut got: Vec<Vec<u8>> = cols.iter().map(|c| model::norm_column(c)).collect();
        got.sort();
        let mut exp: Vec<Vec<u8>> = m.sites.iter().map(|(_, _, al)| model::norm_column(al)).collect();
        exp.sort();
        if got != exp {
            return Err(Outcome::Fail(format!(
                "columns (normalised up to complement) {:?}, planted {:?}",
                got.iter().map(|c| lossy(c)).collect::<Vec<_>>(),
                exp.iter().map(|c| lossy(c)).collect::<Vec<_>>()
            )));
        }
        Ok(())
    })();
    ctx.done(&dir);
    match r {
        Err(Outcome::Fail(msg)) => Outcome::Fail(format!(
            "k={k} ancestor={:?} sites={:?} samples={}: {msg}",
            m.ancestor.iter().map(|r| lossy(r)).collect::<Vec<_>>(),
            m.sites.iter().map(|(c, p, a)| (*c, *p, lossy(a))).collect::<Vec<_>>(),
            super::common::show_samples(&m.samples)
        )),
        Err(o) => o,
        Ok(()) => {
            let mut cl = vec![];
            if m.sites.len() >= 3 { cl.push(">=3_sites"); }
            if m.sites.iter().any(|(_, _, a)| { let mut x = a.clone(); x.sort(); x.dedup(); x.len() >= 3 }) { cl.push(">=3_alleles"); }
            if c.exact_k_contig { cl.push("contig_of_length_k"); }
            if m.sites.iter().any(|(ci, p, _)| *p == (k - 1) / 2 || *p == m.ancestor[*ci].len() - 1 - (k - 1) / 2) { cl.push("site_at_minimum_distance_from_end"); }
            if one_step { cl.push("one_step_from_fasta"); }
            if k >= 33 { cl.push("128bit"); }
            if m.ancestor.len() >= 2 { cl.push("multi_contig"); }
            if (0..m.samples.len()).any(|i| width_of(c, i).is_some()) { cl.push("wrapped_fasta"); }
            if !c.lower.is_empty() { cl.push("soft_masked_lower_case"); }
            pass(true, key_of(&(k, &m.ancestor, &m.sites, &m.samples)), cl)
        }
    }
}

const RULE: &str = "generated: 1-3 ancestor contigs (length k..5k, one of exactly k with a central site in 15% of cases) built by greedy extension so that every split k-mer is unique on both strands and none is self-reverse-complement, also after substitution (checked; residual rejections counted); 1-6 substitution sites more than (k-1)/2 apart and >= (k-1)/2 from the contig ends, 2-4 alleles over 2-10 samples with >=2 alleles present; every sample's contigs independently reverse-complemented and shuffled, its FASTA unwrapped or wrapped at a generated width, upper-case or soft-masked with a generated lower-case mask; all k. Oracle: multiset of output columns (normalised up to complement) == planted columns, names in input order, equal lengths. Every accepted case has >=1 site (non-trivial); distinct by (k, ancestor, sites, samples).";

fn stages(tier: Tier) -> Vec<Box<dyn Stage>> {
    vec![gen_stage_show("align", RULE, tier.pick(3200, 40_000), 250, case_strategy, check, |c| match materialise(c) {
        Ok(m) => json!({"k": c.k, "ancestor": m.ancestor.iter().map(|r| lossy(r)).collect::<Vec<_>>(), "sites": m.sites.iter().map(|(c, p, a)| json!({"contig": c, "pos": p, "alleles": lossy(a)})).collect::<Vec<_>>(), "n_samples": c.n_samples}),
        Err(e) => json!({"rejected": e}),
    })]
}

pub fn def() -> PropDef {
    PropDef {
        id: "C03",
        level: "exploration",
        assumptions: &["two-strand mode (contigs in either orientation)", "preconditions of the property are met by construction and re-checked on the materialised samples"],
        stages,
        post: None,
    }
}
