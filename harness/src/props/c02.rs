//! C02 — build is invariant to strand, record order, letter case, wrapping and gzip.

use proptest::prelude::*;
use serde::{Deserialize, Serialize};
use serde_json::json;

use super::common::*;
use super::PropDef;
use crate::cli;
use crate::engine::{gen_stage_show, key_of, pass, Ctx, Outcome, Stage, Tier};
use crate::gen::{self, Rec};
use crate::model;

#[derive(Clone, Debug, Serialize, Deserialize)]
pub struct Transform {
    /// records to reverse-complement (cyclic mask over all records; two-strand mode only)
    pub rc_mask: Vec<bool>,
    /// sort keys for a record permutation within each sample (cyclic)
    pub rec_perm: Vec<u16>,
    pub width: Option<u8>,
    /// cyclic case-flip mask
    pub case_mask: Vec<bool>,
    pub gzip: bool,
    /// Windows line endings in the transformed files
    #[serde(default)]
    pub crlf: bool,
    /// sort keys for the sample permutation
    pub sample_perm: Vec<u16>,
}

#[derive(Clone, Debug, Serialize, Deserialize)]
pub struct Case {
    pub k: usize,
    pub rc: bool,
    pub samples: Vec<Vec<Rec>>,
    pub t: Transform,
}

fn transform_strategy() -> BoxedStrategy<Transform> {
    (
        prop_oneof![1 => Just(vec![]), 2 => proptest::collection::vec(any::<bool>(), 1..6)],
        prop_oneof![1 => Just(vec![]), 2 => proptest::collection::vec(any::<u16>(), 2..6)],
        prop_oneof![2 => Just(None), 2 => (1u8..81).prop_map(Some)],
        prop_oneof![1 => Just(vec![]), 2 => proptest::collection::vec(any::<bool>(), 1..7)],
        prop::bool::weighted(0.3),
        prop_oneof![1 => Just(vec![]), 1 => proptest::collection::vec(any::<u16>(), 2..6)],
        prop::bool::weighted(0.25),
    )
        .prop_map(|(rc_mask, rec_perm, width, case_mask, gzip, sample_perm, crlf)| Transform { rc_mask, rec_perm, width, case_mask, gzip, sample_perm, crlf })
        .boxed()
}

fn case_strategy() -> BoxedStrategy<Case> {
    gen::k_strategy()
        .prop_flat_map(|k| {
            (
                Just(k),
                prop::bool::weighted(0.7),
                proptest::collection::vec(proptest::collection::vec(gen::rec_strategy(k), 1..5), 1..4),
                transform_strategy(),
            )
        })
        .prop_map(|(k, rc, samples, t)| Case { k, rc, samples, t })
        .boxed()
}

fn perm_from_keys(keys: &[u16], n: usize) -> Vec<usize> {
    let mut idx: Vec<usize> = (0..n).collect();
    if keys.is_empty() {
        return idx;
    }
    idx.sort_by_key(|i| (keys[i % keys.len()].wrapping_add((*i as u16).wrapping_mul(7919)), *i));
    idx
}

struct Mat {
    orig: Vec<Vec<Vec<u8>>>,
    trans: Vec<Vec<Vec<u8>>>,
    sample_perm: Vec<usize>,
}

fn materialise(c: &Case) -> Mat {
    let mut orig: Vec<Vec<Vec<u8>>> = c.samples.iter().map(|s| gen::materialise_recs(s, c.k)).collect();
    // construction instead of rejection: a sample without any window gets one extra record
    for (si, s) in orig.iter_mut().enumerate() {
        if s.iter().all(|r| model::windows(r, c.k).is_empty()) && (si + c.k / 2) % 6 != 0 {
            s.push((0..c.k + 2 + si).map(|i| model::BASES[(i * i + i / 3 + si) % 4]).collect());
        }
    }
    let mut trans = Vec::new();
    let mut rec_no = 0usize;
    for s in &orig {
        let perm = perm_from_keys(&c.t.rec_perm, s.len());
        let mut out = Vec::new();
        for i in perm {
            let mut r = s[i].clone();
            if c.rc && !c.t.rc_mask.is_empty() && c.t.rc_mask[rec_no % c.t.rc_mask.len()] {
                r = model::revcomp(&r);
            }
            if !c.t.case_mask.is_empty() {
                for (j, b) in r.iter_mut().enumerate() {
                    if c.t.case_mask[j % c.t.case_mask.len()] {
                        *b = if b.is_ascii_lowercase() { b.to_ascii_uppercase() } else { b.to_ascii_lowercase() };
                    }
                }
            }
            rec_no += 1;
            out.push(r);
        }
        trans.push(out);
    }
    let sample_perm = perm_from_keys(&c.t.sample_perm, orig.len());
    Mat { orig, trans, sample_perm }
}

fn check(c: &Case, ctx: &Ctx, route: Route) -> Outcome {
    let m = materialise(c);
    let dir = ctx.case_dir();
    let n = m.orig.len();
    let names = sample_names(n, "s");
    let mut files_a: Vec<(String, String)> = vec![(String::new(), String::new()); n];
    let mut files_b_unperm: Vec<(String, String)> = vec![(String::new(), String::new()); n];
    let mut bytes_differ = false;
    // a third of the command-line cases hand the same records over as reads: every record five times (the
    // documented default --min-count) with top qualities, plus one read seen once, which must be filtered out
    // from the plain and from the compressed file alike (what a file is is decided by its content)
    let as_reads = matches!(route, Route::Cli) && (n + c.k / 2 + m.orig[0].len()) % 3 == 0;
    // half of these lists mix read samples and assemblies (every sample is what its own file says it is, wherever
    // it stands in the list: the sample permutation moves an assembly or a read sample to the front)
    let mixed = as_reads && n >= 2 && (c.k / 2 + m.orig[0].len() + n) % 2 == 0;
    let is_read_sample = |i: usize| !mixed || (i + c.k / 2) % 2 == 0;
    if as_reads {
        let reads_of = |recs: &[Vec<u8>], i: usize, first: bool| -> Vec<(Vec<u8>, Vec<u8>)> {
            let mut out = Vec::new();
            for r in recs.iter().filter(|r| !r.is_empty()) {
                for _ in 0..5 {
                    out.push((r.clone(), vec![b'I'; r.len()]));
                }
            }
            // the read seen once: short, or (a quarter of the cases) a single read of 50-70 kb, first in one file
            // and last in the other
            if (c.k / 2 + n + i) % 4 == 0 {
                let mut x = (c.k * 1000 + i) as u64 | 1;
                let long: Vec<u8> = (0..50_000 + (c.k * 997) % 20_000).map(|_| { x = crate::engine::splitmix64(x); model::BASES[(x >> 35) as usize & 3] }).collect();
                let q = vec![b'I'; long.len()];
                if first { out.insert(0, (long, q)); } else { out.push((long, q)); }
            } else {
                let noise = gen::filler(c.k, 11 + i);
                out.insert(out.len() / 2, (noise.clone(), vec![b'I'; noise.len()]));
            }
            out
        };
        for i in (0..n).filter(|i| is_read_sample(*i)) {
            let fa = dir.join(format!("a{i}.fastq"));
            cli::write_fastq(&fa, &reads_of(&m.orig[i], i, true));
            files_a[i] = (names[i].clone(), cli::p(&fa));
            let fb = dir.join(format!("b{i}.fastq"));
            cli::write_fastq(&fb, &reads_of(&m.trans[i], i, false));
            if std::fs::read(&fa).ok() != std::fs::read(&fb).ok() {
                bytes_differ = true;
            }
            if c.t.gzip {
                let fz = dir.join(format!("b{i}.fastq{}", [".gz", ".gzip", ".gz", ".bgz"][(i + c.k / 2 + c.t.width.unwrap_or(0) as usize) % 4]));
                match (i + c.k / 2) % 4 { 0 => cli::gzip_members(&fb, &fz, 2), 1 => cli::gzip_members(&fb, &fz, 3), _ => cli::gzip(&fb, &fz) }
                bytes_differ = true;
                files_b_unperm[i] = (names[i].clone(), cli::p(&fz));
            } else {
                files_b_unperm[i] = (names[i].clone(), cli::p(&fb));
            }
        }
    }
    for i in (0..n).filter(|i| !as_reads || !is_read_sample(*i)) {
        let fa = dir.join(format!("a{i}.fa"));
        cli::write_fasta_auto(&fa, &m.orig[i], None);
        files_a[i] = (names[i].clone(), cli::p(&fa));
        let fb = dir.join(format!("b{i}.fa"));
        cli::write_fasta_auto(&fb, &m.trans[i], c.t.width.map(|w| w as usize));
        // a quarter of the re-wrapped files also hold empty lines inside their records
        if let Some(w) = c.t.width {
            if (w as usize + i + c.k / 2) % 4 == 0 {
                cli::add_blank_lines(&fb, 1 + w as usize % 3);
            }
        }
        if c.t.crlf {
            cli::to_crlf(&fb);
        }
        if std::fs::read(&fa).ok() != std::fs::read(&fb).ok() {
            bytes_differ = true;
        }
        if c.t.gzip {
            let fz = dir.join(format!("b{i}.fa{}", [".gz", ".gzip", ".gz", ".bgz"][(i + c.k / 2 + c.t.width.unwrap_or(0) as usize) % 4]));
            // half of the compressed files consist of two or three gzip members (cut anywhere, also inside a record)
            match (i + c.k / 2) % 4 { 0 => cli::gzip_members(&fb, &fz, 2), 1 => cli::gzip_members(&fb, &fz, 3), _ => cli::gzip(&fb, &fz) }
            bytes_differ = true;
            files_b_unperm[i] = (names[i].clone(), cli::p(&fz));
        } else {
            files_b_unperm[i] = (names[i].clone(), cli::p(&fb));
        }
    }
    let files_b: Vec<(String, String)> = m.sample_perm.iter().map(|i| files_b_unperm[*i].clone()).collect();
    if m.sample_perm.iter().enumerate().any(|(a, b)| a != *b) {
        bytes_differ = true;
    }
    let ta = observe_build(ctx, &dir, "a", &files_a, c.k, c.rc, route);
    let tb = observe_build(ctx, &dir, "b", &files_b, c.k, c.rc, route);
    ctx.done(&dir);
    let show = || {
        format!(
            "k={} rc={} original={:?} transformed={:?} sample_order={:?} width={:?} gzip={}",
            c.k,
            c.rc,
            m.orig.iter().map(|s| s.iter().map(|r| lossy(r)).collect::<Vec<_>>()).collect::<Vec<_>>(),
            m.trans.iter().map(|s| s.iter().map(|r| lossy(r)).collect::<Vec<_>>()).collect::<Vec<_>>(),
            m.sample_perm,
            c.t.width,
            c.t.gzip
        )
    };
    for t in [&ta, &tb] {
        if let Err(e) = t {
            if let Some(m) = e.strip_prefix("INFRA ") {
                return Outcome::Infra(m.to_string());
            }
            if e.starts_with("PROP ") {
                return Outcome::Fail(format!("{e}; {}", show()));
            }
        }
    }
    let nwin: usize = m.orig.iter().flatten().map(|r| model::windows(r, c.k).len()).sum();
    match (ta, tb) {
        (Err(_), Err(_)) => pass(false, 0, vec!["both_refused"]),
        (Ok(_), Err(e)) => Outcome::Fail(format!("original accepted, transformed input refused ({e}); {}", show())),
        (Err(e), Ok(_)) => Outcome::Fail(format!("original refused ({e}), transformed input accepted; {}", show())),
        (Ok(a), Ok(b)) => {
            // un-permute b's columns
            let mut inv = vec![0usize; n];
            for (pos, src) in m.sample_perm.iter().enumerate() {
                inv[*src] = pos;
            }
            let expected_names: Vec<String> = m.sample_perm.iter().map(|i| names[*i].clone()).collect();
            if b.names != expected_names {
                return Outcome::Fail(format!("sample names after permutation {:?}, expected {:?}; {}", b.names, expected_names, show()));
            }
            let b2 = model::Table {
                names: names.clone(),
                rows: b.rows.iter().map(|(a, r)| (a.clone(), (0..n).map(|i| r[inv[i]]).collect())).collect(),
            };
            if a != b2 {
                return Outcome::Fail(format!("dictionary changed under the transformation: {}; {}", table_diff(&a, &b2), show()));
            }
            let mut cl = vec![];
            if c.rc && !c.t.rc_mask.is_empty() && c.t.rc_mask.iter().any(|x| *x) { cl.push("revcomp_records"); }
            if !c.t.rec_perm.is_empty() { cl.push("permute_records"); }
            if c.t.width.is_some() && (!as_reads || mixed) { cl.push("rewrap"); }
            if !c.t.case_mask.is_empty() { cl.push("case_flip"); }
            if c.t.gzip { cl.push("gzip"); }
            if as_reads { cl.push("as_reads_x5_plus_singleton"); }
            if mixed { cl.push("reads_and_assemblies_in_one_list"); }
            if c.t.crlf && (!as_reads || mixed) { cl.push("crlf"); }
            if m.sample_perm.iter().enumerate().any(|(x, y)| x != *y) { cl.push("permute_samples"); }
            if c.k >= 33 { cl.push("k>=33"); }
            pass(bytes_differ && nwin >= 2, key_of(&(c.k, c.rc, &m.orig, &m.trans, &m.sample_perm, c.t.gzip, c.t.width)), cl)
        }
    }
}

const RULE: &str = "metamorphic, no model: C01-style inputs (1-3 samples of 1-4 records); a combination of transformations (reverse-complement a subset of records [two-strand only], permute records, re-wrap at width 1..80, flip case by mask, gzip, Windows line endings, permute samples); the table of the transformed input must equal the original's (columns permuted by the sample permutation only). Non-trivial: the file bytes or order changed and the input has >=2 windows; distinct by (k, strand, both record sets, options).";

fn show(c: &Case) -> serde_json::Value {
    let m = materialise(c);
    json!({"k": c.k, "two_strand": c.rc,
        "original": m.orig.iter().map(|s| s.iter().map(|r| lossy(r)).collect::<Vec<_>>()).collect::<Vec<_>>(),
        "transformed": m.trans.iter().map(|s| s.iter().map(|r| lossy(r)).collect::<Vec<_>>()).collect::<Vec<_>>(),
        "sample_order": m.sample_perm, "width": c.t.width, "gzip": c.t.gzip})
}

// ---- many samples: the sample permutation on both sides of the serial / parallel build split ----

#[derive(Clone, Debug, Serialize, Deserialize)]
pub struct ManyCase {
    pub k: usize,
    pub rc: bool,
    pub n: usize,
    pub len: usize,
    pub salt: usize,
    /// sort keys for the sample permutation (cyclic)
    pub perm: Vec<u16>,
    pub threads_a: usize,
    pub threads_b: usize,
}

fn many_strategy() -> BoxedStrategy<ManyCase> {
    (
        prop::sample::select(vec![7usize, 9, 15, 21, 31, 33, 41]),
        prop::bool::weighted(0.7),
        prop::sample::select(vec![11usize, 20, 23, 40, 45, 69, 70, 72, 90, 150, 161, 255, 256, 257, 300]),
        0usize..40,
        0usize..1000,
        proptest::collection::vec(any::<u16>(), 2..9),
        prop::sample::select(vec![1usize, 1, 2, 8]),
        prop::sample::select(vec![1usize, 2, 4, 8, 16]),
    )
        .prop_map(|(k, rc, n, extra, salt, perm, threads_a, threads_b)| ManyCase { k, rc, n, len: k + 8 + extra, salt, perm, threads_a, threads_b })
        .boxed()
}

fn check_many(c: &ManyCase, ctx: &Ctx) -> Outcome {
    let base = gen::filler(c.len, c.salt);
    // sample i: the common sequence with one substitution, at a position and to a base that depend on i
    let samples: Vec<Sample> = (0..c.n)
        .map(|i| {
            let mut s = base.clone();
            let p = (i * 7 + c.salt) % s.len();
            s[p] = model::BASES[(model::BASES.iter().position(|b| *b == s[p]).unwrap() + 1 + i % 3) % 4];
            (format!("m{}_{i}", (i * 3) % 10), vec![s])
        })
        .collect();
    // some lists name two different samples alike (adjacent, or far apart)
    let mut samples = samples;
    match c.salt % 5 {
        0 => samples[1].0 = samples[0].0.clone(),
        1 => {
            let last = samples.len() - 1;
            samples[last].0 = samples[2].0.clone();
        }
        // the very same entry (name and file) listed a second time, at a quarter / half / three quarters of the list
        2 => {
            let at = samples.len() * (1 + (c.salt / 5) as usize % 3) / 4;
            samples[at] = samples[2].clone();
        }
        _ => {}
    }
    let perm = perm_from_keys(&c.perm, c.n);
    let permuted: Vec<Sample> = perm.iter().map(|i| samples[*i].clone()).collect();
    let dir = ctx.case_dir();
    let mut tabs = Vec::new();
    for (tag, set, threads) in [("a", &samples, c.threads_a), ("b", &permuted, c.threads_b)] {
        // identical entries point to one and the same file (the list is rewritten after the files exist)
        let list = write_samples(&dir, tag, set, None);
        let text = std::fs::read_to_string(&list).unwrap();
        let mut lines: Vec<String> = text.lines().map(|l| l.to_string()).collect();
        for i in 0..set.len() {
            if let Some(j) = (0..i).find(|j| set[*j] == set[i]) {
                lines[i] = lines[j].clone();
            }
        }
        std::fs::write(&list, lines.join("\n") + "\n").unwrap();
        let (ks, ts, out) = (c.k.to_string(), threads.to_string(), cli::p(&dir.join(tag)));
        let mut args: Vec<&str> = vec!["build", "-f", &list, "-o", &out, "-k", &ks];
        if !c.rc {
            args.push("--single-strand");
        }
        if threads > 1 {
            args.extend_from_slice(&["--threads", &ts]);
        }
        let o = cli::run_ska(ctx, &dir, &args);
        if let Err(e) = must_ok(&o, &format!("build of {} samples with {threads} threads", c.n)) {
            return e;
        }
        match nk(ctx, &dir, &format!("{tag}.skf")) {
            Ok(x) => tabs.push(x),
            Err(e) => return e,
        }
    }
    ctx.done(&dir);
    let (_, exp_a) = model_table(&samples, c.k, c.rc);
    let (_, exp_b) = model_table(&permuted, c.k, c.rc);
    for (nkx, exp, what) in [(&tabs[0], &exp_a, "listed order"), (&tabs[1], &exp_b, "permuted order")] {
        if let Err(e) = model::compare_nk(nkx, exp, c.k, c.rc, None) {
            return Outcome::Fail(format!("{} samples, k={} rc={} threads {}/{} ({what}): {e}", c.n, c.k, c.rc, c.threads_a, c.threads_b));
        }
    }
    let mut cl = vec![];
    if c.n >= 70 && c.threads_b >= 8 { cl.push("merge_depth>=3"); }
    if c.threads_b > 1 && c.n >= 10 * c.threads_b { cl.push("parallel_build"); }
    pass(perm.iter().enumerate().any(|(a, b)| a != *b), key_of(&(c.k, c.rc, c.n, c.len, c.salt, &perm, c.threads_a, c.threads_b)), cl)
}

const MANY_RULE: &str = "generated: 11-300 one-record samples (counts on both sides of every 10-per-thread threshold and of 256) (a common sequence of k+8..k+47 bases with one sample-specific substitution each), built once in listed order and once in a generated permutation, with thread counts from {1,2,8} and {1,2,4,8,16} (both sides of the 10-samples-per-thread rule and merge depths 1-4), k in {7,9,15,21,31,33,41}, both strand modes. some lists name two different samples alike or list the very same entry twice (at a quarter, half or three quarters of the list). Oracle: each table equals the string model's table for that sample order (so the permutation only permutes the columns). Non-trivial: the permutation is not the identity.";

fn stages(tier: Tier) -> Vec<Box<dyn Stage>> {
    vec![
        gen_stage_show("inproc", RULE, tier.pick(16_000, 300_000), 800, case_strategy, |c, ctx| check(c, ctx, if c.k <= 31 && c.samples.len() % 2 == 0 { Route::InProc64 } else { Route::InProc128 }), show),
        gen_stage_show("cli", RULE, tier.pick(1600, 24_000), 200, case_strategy, |c, ctx| check(c, ctx, Route::Cli), show),
        gen_stage_show("many_samples", MANY_RULE, tier.pick(96, 1600), 20, many_strategy, check_many, |c| serde_json::to_value(c).unwrap()),
    ]
}

pub fn def() -> PropDef {
    PropDef {
        id: "C02",
        level: "exploration",
        assumptions: &[
            "inputs over ACGTN in either case",
            "needletail's gzip detection and line handling are exercised, not modelled",
        ],
        stages,
        post: None,
    }
}
