//! C12 — read filtering keeps exactly the k-mers seen min-count times at passing quality.

use std::collections::BTreeMap;
use std::sync::atomic::{AtomicU64, Ordering};

use proptest::prelude::*;
use serde::{Deserialize, Serialize};
use serde_json::json;

use super::common::*;
use super::PropDef;
use crate::cli::{self, run_ska};
use crate::engine::{gen_stage_show, key_of, pass, Ctx, Outcome, Runtime, Stage, Tier};
use crate::gen;
use crate::model;

#[derive(Clone, Debug, Serialize, Deserialize)]
pub struct Read {
    pub start: u16,
    pub extra: u8,
    pub rev: bool,
    /// (position selector, 0..3 substitute base / 4 = N)
    pub errs: Vec<(u16, u8)>,
    /// cyclic quality selectors 0..7 -> {Q-1, Q, Q, Q+1, Q+5, 40, 93}
    pub quals: Vec<u8>,
    pub copies: u8,
}

#[derive(Clone, Debug, Serialize, Deserialize)]
pub struct Case {
    pub k: usize,
    pub rc: bool,
    pub genome: Vec<u8>,
    /// plant a self-reverse-complement split k-mer (arm material)
    pub pal: Option<(Vec<u8>, u8)>,
    pub reads: Vec<Read>,
    pub split: u16,
    pub min_count: u16,
    pub min_qual: u8,
    /// 0 none, 1 middle, 2 strict
    pub rule: u8,
}

fn read_strategy(max_copies: u8) -> BoxedStrategy<Read> {
    (
        any::<u16>(),
        0u8..31,
        any::<bool>(),
        proptest::collection::vec((any::<u16>(), 0u8..5), 0..2),
        proptest::collection::vec(prop_oneof![1 => Just(0u8), 2 => Just(1u8), 2 => Just(2u8), 2 => Just(3u8), 2 => Just(4u8), 3 => Just(5u8), 1 => Just(6u8)], 1..9),
        1u8..=max_copies,
    )
        .prop_map(|(start, extra, rev, errs, quals, copies)| Read { start, extra, rev, errs, quals, copies })
        .boxed()
}

fn case_strategy() -> BoxedStrategy<Case> {
    // min-count 1..6 and min-qual 0..40, with extra weight on the documented defaults (5 and 20), which the
    // CLI driver then leaves out in a third of the calls
    (gen::k_strategy(), prop_oneof![6 => 1u16..=6, 1 => Just(5u16)])
        .prop_flat_map(|(k, min_count)| {
            (
                Just(k),
                Just(min_count),
                any::<bool>(),
                proptest::collection::vec(0u8..4, (k + 5)..(3 * k + 40)),
                prop_oneof![4 => Just(None), 1 => (proptest::collection::vec(0u8..4, 1..6), 0u8..4).prop_map(Some)],
                proptest::collection::vec(read_strategy(min_count as u8 + 1), 2..24),
                any::<u16>(),
                prop_oneof![1 => Just(0u8), 4 => 1u8..=40, 1 => Just(20u8)],
                0u8..3,
            )
        })
        .prop_map(|(k, min_count, rc, genome, pal, reads, split, min_qual, rule)| Case { k, rc, genome, pal, reads, split, min_count, min_qual, rule })
        .boxed()
}

pub struct Mat {
    pub genome: Vec<u8>,
    pub reads: Vec<(Vec<u8>, Vec<u8>)>,
    pub split: usize,
}

fn qual_of(sel: u8, q: u8) -> u8 {
    let v: i32 = match sel % 7 {
        0 => q as i32 - 1,
        1 | 2 => q as i32,
        3 => q as i32 + 1,
        4 => q as i32 + 5,
        5 => 40,
        // the top of the Phred+33 range ('~', written by long-read basecallers and simulators)
        _ => 93,
    };
    v.clamp(0, 93) as u8
}

pub fn materialise(c: &Case) -> Mat {
    let k = c.k;
    let h = (k - 1) / 2;
    let mut genome = gen::bases_to_seq(&c.genome);
    if let Some((arm, mid)) = &c.pal {
        let mut a = gen::bases_to_seq(arm);
        let mut i = 0;
        while a.len() < h {
            let b = a[i % a.len()];
            a.push(b);
            i += 1;
        }
        a.truncate(h);
        let mut w = a.clone();
        w.push(model::BASES[*mid as usize & 3]);
        w.extend(model::revcomp(&a));
        let at = genome.len() / 2;
        let at = at.min(genome.len().saturating_sub(k));
        genome.splice(at..at + k.min(genome.len() - at), w);
    }
    let mut reads = Vec::new();
    for r in &c.reads {
        let len = (k + r.extra as usize).min(genome.len());
        let start = gen::idx(r.start, genome.len() - len + 1);
        let mut s = genome[start..start + len].to_vec();
        for (ps, b) in &r.errs {
            let p = gen::idx(*ps, s.len());
            s[p] = if *b >= 4 { b'N' } else { model::BASES[*b as usize] };
        }
        if r.rev {
            s = model::revcomp(&s);
        }
        // some reads are partly lower case (soft-masked): case must not matter
        if r.start % 3 == 0 {
            for (i, b) in s.iter_mut().enumerate() {
                if (i + r.extra as usize) % 5 < 2 {
                    *b = b.to_ascii_lowercase();
                }
            }
        }
        let q: Vec<u8> = (0..s.len()).map(|i| 33 + qual_of(r.quals[i % r.quals.len()], c.min_qual)).collect();
        for _ in 0..r.copies.max(1) {
            reads.push((s.clone(), q.clone()));
        }
    }
    // one case in eight: the first read of the first file has the lowest quality at every base (a dummy-quality
    // record in front of real reads): it is one read among the others
    if (c.k + c.reads.len() + c.min_qual as usize) % 8 == 3 {
        if let Some(r0) = reads.first_mut() {
            for q in r0.1.iter_mut() {
                *q = b'!';
            }
        }
    }
    // k >= 33, --min-count >= 3, half of the cases: a k-mer S seen exactly min-count times and its relative T (S with
    // the bases at positions i and i+32 exchanged) seen twice, in the order S T S..S T S: two k-mers are two counts
    if k >= 33 && c.min_count >= 3 && (genome.len() + c.reads.len()) % 2 == 0 {
        let mut x = genome.iter().fold(k as u64 + 77, |a, b| a.wrapping_mul(131).wrapping_add(*b as u64));
        let mut sk: Vec<u8> = (0..k).map(|_| { x = crate::engine::splitmix64(x); model::BASES[(x >> 33) as usize & 3] }).collect();
        let i = (x >> 7) as usize % (k - 32);
        if sk[i] == sk[i + 32] {
            sk[i + 32] = model::BASES[(model::BASES.iter().position(|b| *b == sk[i]).unwrap() + 1) % 4];
        }
        let mut tk = sk.clone();
        tk.swap(i, i + 32);
        let q = vec![33 + c.min_qual.clamp(30, 93); k];
        let mc = c.min_count as usize;
        let mut order: Vec<&Vec<u8>> = vec![&sk, &tk];
        order.extend(std::iter::repeat(&sk).take(mc - 2));
        order.push(&tk);
        order.push(&sk);
        for r in order {
            reads.push((r.clone(), q.clone()));
        }
    }
    // k = 63, two strands, --min-count >= 3 (the other half of those cases): the structured pair C^63 and (TACG)15TAC,
    // whose 64-bit read hashes are equal (found by the C02 check, DESIGN 4 F14); S exactly min-count times, T twice
    if k == 63 && c.rc && c.min_count >= 3 && (genome.len() + c.reads.len()) % 2 == 1 {
        let sk: Vec<u8> = b"TACG".iter().cycle().take(63).copied().collect();
        let tk: Vec<u8> = vec![b'C'; 63];
        let (sk, tk) = if c.reads.len() % 4 < 2 { (sk, tk) } else { (tk, sk) };
        let q = vec![33 + c.min_qual.clamp(30, 93); k];
        let mc = c.min_count as usize;
        // S min-count - 1 times, T twice, S once more: a counter shared by the two reaches the count on a T
        let mut order: Vec<&Vec<u8>> = std::iter::repeat(&sk).take(mc - 1).collect();
        order.push(&tk);
        order.push(&tk);
        order.push(&sk);
        for r in order {
            reads.push((r.clone(), q.clone()));
        }
    }
    // k <= 31 (the other half of the cases with --min-count >= 3): two unrelated k-mers whose read hashes agree in
    // 32 of their 64 bits (lower half, upper half, or the two halves folded together), found by a birthday search
    // over the program's own hash function; S exactly min-count times, T twice, in the order S T S..S T S
    if k <= 31 && k >= 15 && c.min_count >= 3 && (genome.len() + c.reads.len()) % 2 == 1 {
        let pairs = colliding_pairs(k, c.rc);
        if !pairs.is_empty() {
            let (sk, tk, _kind) = &pairs[(genome.len() / 2 + c.reads.len()) % pairs.len()];
            let q = vec![33 + c.min_qual.clamp(30, 93); k];
            let mc = c.min_count as usize;
            let mut order: Vec<&Vec<u8>> = if c.reads.len() % 2 == 0 {
                let mut o = vec![sk, tk];
                o.extend(std::iter::repeat(sk).take(mc - 2));
                o.push(tk);
                o
            } else {
                // S min-count - 1 times, T twice, S once more
                let mut o: Vec<&Vec<u8>> = std::iter::repeat(sk).take(mc - 1).collect();
                o.push(tk);
                o.push(tk);
                o
            };
            order.push(sk);
            for r in order {
                reads.push((r.clone(), q.clone()));
            }
        }
    }
    let n = reads.len();
    let split = 1 + gen::idx(c.split, n - 1);
    Mat { genome, reads, split }
}

/// Pairs of different k-mers whose read hash (what the counting filter keys on; taken from the program itself through
/// `SplitKmer::get_hash`) agrees in its lower 32 bits, its upper 32 bits, or after folding the halves together:
/// a birthday search over 400000 pseudo-random k-mers (a pure function of k and the strand mode; cached).
pub fn colliding_pairs(k: usize, rc: bool) -> Vec<(Vec<u8>, Vec<u8>, &'static str)> {
    use std::collections::HashMap;
    static CACHE: std::sync::Mutex<Option<HashMap<(usize, bool), Vec<(Vec<u8>, Vec<u8>, &'static str)>>>> = std::sync::Mutex::new(None);
    if let Some(v) = CACHE.lock().unwrap().get_or_insert_with(HashMap::new).get(&(k, rc)) {
        return v.clone();
    }
    let mut x: u64 = 0x5EED_0000 + k as u64 * 2 + rc as u64;
    let mut seen: [HashMap<u32, Vec<u8>>; 3] = [HashMap::new(), HashMap::new(), HashMap::new()];
    let mut out: Vec<(Vec<u8>, Vec<u8>, &'static str)> = Vec::new();
    let r = std::panic::catch_unwind(std::panic::AssertUnwindSafe(|| {
        for _ in 0..400_000 {
            let w: Vec<u8> = (0..k).map(|_| { x = crate::engine::splitmix64(x); model::BASES[(x >> 29) as usize & 3] }).collect();
            let h = match ska::ska_dict::split_kmer::SplitKmer::<u64>::new(std::borrow::Cow::Borrowed(&w[..]), w.len(), None, k, rc, 0, ska::QualFilter::NoFilter, true) {
                Some(it) => it.get_hash(),
                None => continue,
            };
            for (i, (key, kind)) in [(h as u32, "lower_32_bits"), ((h >> 32) as u32, "upper_32_bits"), ((h ^ (h >> 32)) as u32, "folded_halves")].into_iter().enumerate() {
                match seen[i].get(&key) {
                    Some(other) if *other != w && model::canon(other, rc).arms != model::canon(&w, rc).arms => out.push((other.clone(), w.clone(), kind)),
                    Some(_) => {}
                    None => { seen[i].insert(key, w.clone()); }
                }
            }
        }
    }));
    if r.is_err() {
        out.clear();
    }
    CACHE.lock().unwrap().get_or_insert_with(HashMap::new).insert((k, rc), out.clone());
    out
}

/// model counts: canonical full k-mer -> count of passing windows; returns (must, may) dictionaries
pub fn model_counts(c: &Case, m: &Mat) -> (model::SampleDict, model::SampleDict, usize, bool, bool) {
    let k = c.k;
    let h = (k - 1) / 2;
    let q = c.min_qual;
    let mut counts: BTreeMap<Vec<u8>, u32> = BTreeMap::new();
    let mut qual_at_threshold = false;
    for (s, ql) in &m.reads {
        if ql.iter().any(|x| x - 33 == q) {
            qual_at_threshold = true;
        }
        for (st, w) in model::windows(s, k) {
            let ok = match c.rule {
                0 => true,
                1 => ql[st + h] - 33 >= q,
                _ => ql[st..st + k].iter().all(|x| x - 33 >= q),
            };
            if !ok {
                continue;
            }
            let key = if c.rc {
                let r = model::revcomp(&w);
                if r < w {
                    r
                } else {
                    w
                }
            } else {
                w
            };
            *counts.entry(key).or_insert(0) += 1;
        }
    }
    let mut must = model::SampleDict::new();
    let mut may = model::SampleDict::new();
    let mut near = false;
    for (w, n) in &counts {
        let cn = model::canon(w, c.rc);
        let mut mask = model::base_mask(cn.middle);
        if cn.self_rc {
            mask |= model::base_mask(model::comp(cn.middle));
        }
        *may.entry(cn.arms.clone()).or_insert(0) |= mask;
        let cmin = c.min_count.max(1) as u32;
        if *n >= cmin {
            *must.entry(cn.arms).or_insert(0) |= mask;
        }
        if *n == cmin || *n + 1 == cmin {
            near = true;
        }
    }
    (must, may, counts.len(), near, qual_at_threshold)
}

pub static EXTRAS: AtomicU64 = AtomicU64::new(0);
pub static DISTINCT: AtomicU64 = AtomicU64::new(0);

fn judge(c: &Case, m: &Mat, observed: Result<BTreeMap<Vec<u8>, u8>, String>, ctx: &Ctx) -> Outcome {
    let (must, may, distinct, near, qthr) = model_counts(c, m);
    let show = || {
        format!(
            "k={} rc={} min_count={} min_qual={} rule={} split_at={} reads={:?}",
            c.k, c.rc, c.min_count, c.min_qual, ["none", "middle", "strict"][c.rule as usize % 3], m.split,
            if m.reads.len() > 60 { vec![format!("{} reads (not listed)", m.reads.len())] } else { m.reads.iter().map(|(s, q)| format!("{}/{}", lossy(s), lossy(q))).collect::<Vec<_>>() }
        )
    };
    let obs = match observed {
        Err(e) => {
            if let Some(x) = e.strip_prefix("INFRA ") {
                return Outcome::Infra(x.to_string());
            }
            if must.is_empty() {
                return pass(false, 0, vec!["refused_nothing_reaches_count"]);
            }
            return Outcome::Fail(format!("build refused ({e}) although {} k-mers reach the count; {}", must.len(), show()));
        }
        Ok(o) => o,
    };
    let mut extras = 0usize;
    for (arms, code) in &obs {
        let got = match model::mask_of_code(*code) {
            Some(g) => g,
            None => return Outcome::Fail(format!("stored symbol {:?} is not an IUPAC code; {}", *code as char, show())),
        };
        let mu = must.get(arms).copied().unwrap_or(0);
        let ma = may.get(arms).copied().unwrap_or(0);
        if mu & !got != 0 {
            return Outcome::Fail(format!("k-mer {} lost a middle base that reaches the count: stored {:?}, required set mask {mu:#x}; {}", model::show_arms(arms), *code as char, show()));
        }
        if got & !ma != 0 {
            return Outcome::Fail(format!("k-mer {} stores {:?}, which includes a base never observed at passing quality (observed mask {ma:#x}); {}", model::show_arms(arms), *code as char, show()));
        }
        extras += (got & !mu).count_ones() as usize;
    }
    for (arms, mu) in &must {
        if !obs.contains_key(arms) {
            return Outcome::Fail(format!("k-mer {} (mask {mu:#x}) reaches the count but is missing from the output; {}", model::show_arms(arms), show()));
        }
    }
    if must.is_empty() && obs.is_empty() {
        return Outcome::Fail(format!("build accepted the input but stored nothing; {}", show()));
    }
    let allowed = std::cmp::max(1, (distinct as f64 * 0.001).ceil() as usize);
    if extras > allowed {
        return Outcome::Fail(format!("{extras} k-mer/base combinations below the count were included (collision allowance {allowed} of {distinct} distinct k-mers); {}", show()));
    }
    if !ctx.replay {
        EXTRAS.fetch_add(extras as u64, Ordering::Relaxed);
        DISTINCT.fetch_add(distinct as u64, Ordering::Relaxed);
    }
    let mut cl = vec![["rule_none", "rule_middle", "rule_strict"][c.rule as usize % 3]];
    if near { cl.push("count_at_threshold"); }
    if qthr { cl.push("quality_at_threshold"); }
    if c.min_count >= 3 { cl.push("min_count>=3"); }
    if c.min_count == 2 { cl.push("min_count=2(bloom only)"); }
    if must.len() < may.len() { cl.push("some_kmers_filtered"); }
    if c.pal.is_some() { cl.push("self_rc_planted"); }
    if extras > 0 { cl.push("collision_extras"); }
    if c.k >= 33 { cl.push("128bit"); }
    if c.k <= 31 && c.k >= 15 && c.min_count >= 3 && (c.genome.len() + c.reads.len()) % 2 == 1 { cl.push("planted_pair_with_half_colliding_read_hashes"); }
    if c.k == 63 && c.rc && c.min_count >= 3 && (c.genome.len() + c.reads.len()) % 2 == 1 { cl.push("planted_pair_with_equal_read_hashes(C^63,(TACG)n)"); }
    if m.split * 2 == m.reads.len() && m.reads[..m.split] == m.reads[m.split..] { cl.push("both_files_identical(same_file_listed_twice_in_cli)"); }
    pass(near && qthr && !must.is_empty(), key_of(&(c.k, c.rc, c.min_count, c.min_qual, c.rule, &m.reads, m.split)), cl)
}

fn write_reads(dir: &std::path::Path, m: &Mat) -> (String, String) {
    let (f1, f2) = (dir.join("r_1.fastq"), dir.join("r_2.fastq"));
    cli::write_fastq(&f1, &m.reads[..m.split]);
    cli::write_fastq(&f2, &m.reads[m.split..]);
    (cli::p(&f1), cli::p(&f2))
}

fn lib_rule(r: u8) -> ska::QualFilter {
    match r % 3 {
        0 => ska::QualFilter::NoFilter,
        1 => ska::QualFilter::Middle,
        _ => ska::QualFilter::Strict,
    }
}

fn inproc<IntT>(c: &Case, f1: &str, f2: &String) -> Result<BTreeMap<Vec<u8>, u8>, String>
where
    IntT: for<'a> ska::ska_dict::bit_encoding::UInt<'a> + Into<u128>,
{
    let q = ska::QualOpts { min_count: c.min_count, min_qual: c.min_qual, qual_filter: lib_rule(c.rule) };
    let r = std::panic::catch_unwind(std::panic::AssertUnwindSafe(|| {
        let d = ska::ska_dict::SkaDict::<IntT>::new(c.k, 0, (f1, Some(f2)), "s", c.rc, &q, None);
        d.kmers().iter().map(|(x, v)| (model::unpack_arms((*x).into(), c.k), *v)).collect::<BTreeMap<_, _>>()
    }));
    r.map_err(|e| panic_msg(&e))
}

fn check_inproc(c: &Case, ctx: &Ctx) -> Outcome {
    let m = materialise(c);
    let dir = ctx.case_dir();
    let (f1, f2) = write_reads(&dir, &m);
    let obs = if c.k <= 31 && c.genome.len() % 2 == 0 { inproc::<u64>(c, &f1, &f2) } else { inproc::<u128>(c, &f1, &f2) };
    ctx.done(&dir);
    judge(c, &m, obs, ctx)
}

fn check_cli(c: &Case, ctx: &Ctx) -> Outcome {
    let mut m = materialise(c);
    // a sixth of the cases: single-end reads listed as a pair (the same file in both columns, by the same path or
    // through a symbolic link): the file is read twice, so every k-mer of it counts twice
    let same_file = (c.k / 2 + c.min_count as usize + c.reads.len()) % 6 == 0;
    if same_file {
        let first = m.reads[..m.split].to_vec();
        m.reads = [first.clone(), first].concat();
    }
    let dir = ctx.case_dir();
    let (mut f1, mut f2) = write_reads(&dir, &m);
    // file naming: .fastq or .fq, plain or gzip-compressed (the content decides what a file is, not its name)
    // a fifth of the pairs are named after the reference they were simulated from (ref.fa.sim_1.fastq)
    if (c.k + m.reads.len()) % 5 == 0 {
        for (f, n) in [(&mut f1, "ref.fa.sim_1.fastq"), (&mut f2, "ref.fa.sim_2.fastq")] {
            let to = dir.join(n);
            std::fs::rename(f.as_str(), &to).unwrap();
            *f = cli::p(&to);
        }
    }
    let variant = (c.k / 2 + m.reads.len()) % 4;
    if variant & 1 == 1 {
        for f in [&mut f1, &mut f2] {
            let fq = f.replace(".fastq", ".fq");
            std::fs::rename(f.as_str(), &fq).unwrap();
            *f = fq;
        }
    }
    if variant & 2 == 2 {
        for f in [&mut f1, &mut f2] {
            // compressed files are recognised by their first bytes: the suffix is a convention (.gz, .gzip, .bgz, .GZ)
            let gz = format!("{f}{}", [".gz", ".gzip", ".gz", ".bgz", ".GZ"][(c.k / 2 + c.min_count as usize + m.reads.len() / 3) % 5]);
            if m.reads.len() % 2 == 0 { cli::gzip(std::path::Path::new(f.as_str()), std::path::Path::new(&gz)) } else { cli::gzip_members(std::path::Path::new(f.as_str()), std::path::Path::new(&gz), 2) }
            *f = gz;
        }
    }
    if same_file {
        if c.reads.len() % 2 == 0 {
            f2 = f1.clone();
        } else {
            let link = dir.join("mate_link.fastq");
            std::os::unix::fs::symlink(&f1, &link).unwrap();
            f2 = cli::p(&link);
        }
    }
    // a quarter of the lists also name an assembly (before or behind the read pair): the count and quality rules are
    // about the reads, whatever else is built in the same run
    let companion = (c.k / 2 + c.min_qual as usize + m.reads.len()) % 4 == 0;
    if companion {
        cli::write_fasta_auto(&dir.join("asm.fa"), &[gen::filler(c.k + 8, 13)], None);
        if c.reads.len() % 2 == 0 {
            std::fs::write(dir.join("list.txt"), format!("asm\tasm.fa\nsmp\t{f1}\t{f2}\n")).unwrap();
        } else {
            std::fs::write(dir.join("list.txt"), format!("smp\t{f1}\t{f2}\nasm\tasm.fa\n")).unwrap();
        }
    } else {
        std::fs::write(dir.join("list.txt"), format!("smp\t{f1}\t{f2}\n")).unwrap();
    }
    let (ks, cs, qs) = (c.k.to_string(), c.min_count.to_string(), c.min_qual.to_string());
    let rule = ["no-filter", "middle", "strict"][c.rule as usize % 3];
    let mut args = vec!["build", "-f", "list.txt", "-o", "x", "-k", &ks, "--min-count", &cs, "--min-qual", &qs, "--qual-filter", rule];
    if !c.rc {
        args.push("--single-strand");
    }
    // "use all reads", spelled out: must be the same as leaving the option away
    if (c.min_count as usize + m.reads.len()) % 4 == 0 {
        args.extend(["--proportion-reads", if c.k % 4 == 1 { "1" } else { "1.0" }]);
    }
    let o = run_ska(ctx, &dir, &args);
    let obs: Result<BTreeMap<Vec<u8>, u8>, String> = (|| {
        if let Some(e) = o.infra() {
            return Err(format!("INFRA {e}"));
        }
        if !o.ok() {
            return Err(o.err_tail());
        }
        let o2 = run_ska(ctx, &dir, &["nk", "--full-info", "x.skf"]);
        if let Some(e) = o2.infra() {
            return Err(format!("INFRA {e}"));
        }
        let nk = model::parse_nk(&o2.out_str())?;
        let col = nk.names.iter().position(|n| n == "smp").ok_or_else(|| format!("sample smp is not in the file: {:?}", nk.names))?;
        Ok(nk.rows.into_iter().filter(|(_, r)| r[col] != b'-').map(|(a, r)| (a, r[col])).collect())
    })();
    ctx.done(&dir);
    judge(c, &m, obs, ctx)
}

fn post(rt: &mut Runtime) {
    let (e, d) = (EXTRAS.load(Ordering::Relaxed), DISTINCT.load(Ordering::Relaxed));
    if let Some(s) = rt.stages.last_mut() {
        s.extra.insert("aggregate_extras".into(), json!(e));
        s.extra.insert("aggregate_distinct_kmers".into(), json!(d));
    }
    // the property's own bound: fewer than 0.1% of distinct k-mers enter through collisions
    if d >= 20_000 && (e as f64) >= 0.001 * d as f64 {
        rt.violations.push(crate::engine::Violation {
            stage: "aggregate".into(),
            case: json!({"extras": e, "distinct": d}),
            message: format!("{e} of {d} distinct k-mers entered below the count (>= 0.1%)"),
            worker: 0,
        });
    }
}

// ---- dense: tens of thousands of distinct k-mers in one sample (the counting filter's blocks fill up) ----

#[derive(Clone, Debug, Serialize, Deserialize)]
pub struct DenseCase {
    pub k: usize,
    pub rc: bool,
    pub min_count: u16,
    pub genome_len: usize,
    pub read_len: usize,
    pub seed: u64,
}

fn dense_strategy() -> BoxedStrategy<DenseCase> {
    (prop::sample::select(vec![15usize, 21, 31, 33, 41]), prop::bool::weighted(0.7), 2u16..=4, 12_000usize..40_000, 100usize..151, any::<u64>())
        .prop_map(|(k, rc, min_count, genome_len, read_len, seed)| DenseCase { k, rc, min_count, genome_len, read_len, seed })
        .boxed()
}

fn dense_materialise(c: &DenseCase) -> (Case, Mat) {
    let mut x = c.seed | 1;
    let mut next = move || {
        x = crate::engine::splitmix64(x);
        x
    };
    // (the cases whose first file holds a single read get a genome five times as long: 60000-200000 k-mers in file 2)
    let genome_len = if c.seed % 3 == 0 { c.genome_len * 5 } else { c.genome_len };
    let genome: Vec<u8> = (0..genome_len).map(|_| model::BASES[(next() >> 7) as usize % 4]).collect();
    // reads tile the genome so that every window lies in exactly one read; every read occurs
    // min_count times, except every seventh, which occurs once less (its k-mers stay below the count)
    let step = c.read_len - (c.k - 1);
    let mut reads: Vec<(Vec<u8>, Vec<u8>)> = Vec::new();
    let mut i = 0;
    let mut idx = 0usize;
    while i + c.k <= genome.len() {
        let end = (i + c.read_len).min(genome.len());
        let s = genome[i..end].to_vec();
        let copies = if idx % 7 == 3 { c.min_count - 1 } else { c.min_count };
        for _ in 0..copies {
            let r = if c.rc && next() % 2 == 0 { model::revcomp(&s) } else { s.clone() };
            let q = vec![b'I'; r.len()];
            reads.push((r, q));
        }
        i += step;
        idx += 1;
    }
    // shuffle, so that other reads come between the copies of a read
    for j in (1..reads.len()).rev() {
        let t = (next() % (j as u64 + 1)) as usize;
        reads.swap(j, t);
    }
    // the two files of a pair need not be alike: in a third of the cases the first holds a single read (an orphan
    // left by trimming), in another third the second does
    let split = match c.seed % 3 { 0 => 1, 1 => reads.len() - 1, _ => reads.len() / 2 };
    let case = Case { k: c.k, rc: c.rc, genome: vec![], pal: None, reads: vec![], split: 0, min_count: c.min_count, min_qual: 0, rule: 0 };
    (case, Mat { genome, reads, split })
}

fn check_dense(c: &DenseCase, ctx: &Ctx) -> Outcome {
    let (case, m) = dense_materialise(c);
    let dir = ctx.case_dir();
    let (f1, f2) = write_reads(&dir, &m);
    let obs = if c.k <= 31 { inproc::<u64>(&case, &f1, &f2) } else { inproc::<u128>(&case, &f1, &f2) };
    ctx.done(&dir);
    match judge(&case, &m, obs, ctx) {
        Outcome::Fail(msg) => Outcome::Fail(format!("dense sample (genome {} bases, reads of {} bases, seed {}): {msg}", c.genome_len, c.read_len, c.seed)),
        Outcome::Pass { key, mut classes, .. } => {
            classes.push("dense(>=12000 distinct k-mers)".into());
            Outcome::Pass { nontrivial: true, key, classes }
        }
        o => o,
    }
}

const DENSE_RULE: &str = "generated: one sample of 12000-40000 distinct k-mers: a random genome tiled by reads of 100-150 bases so that every window lies in exactly one read, every read present min-count times (every seventh read once less), random orientation, shuffled over two FASTQ files; min-count 2-4, k in {15,21,31,33,41}; in-process build. Oracle as in the inproc stage (every k-mer that reaches the count is stored; extras within the 0.1% bound). Every case non-trivial.";

const RULE: &str = "generated: genome of k+5..3k+40 bases (20% with a planted self-reverse-complement split k-mer), 2-23 reads of length k..k+30 from both strands with substitutions and N, a third of them partly lower case, each repeated 1..C+1 times so that counts straddle the threshold, per-base qualities from {Q-1,Q,Q,Q+1,Q+5,40,93}, reads split over two FASTQ files; min-count 1-6, min-qual 0-40, three quality rules, all k, both strand modes. Oracle (string model of counting): every (k-mer, middle base) whose full k-mer count (with its reverse complement, both files, passing windows only) reaches C is stored, nothing never observed at passing quality is stored, below-count extras <= max(1, 0.1% of distinct) per case and < 0.1% in aggregate; a sample where nothing reaches the count is refused. Non-trivial: a k-mer with count C or C-1 and a base with quality exactly Q and >=1 k-mer reaching the count.";

fn show(c: &Case) -> serde_json::Value {
    let m = materialise(c);
    let rule = ["none", "middle", "strict"][c.rule as usize % 3];
    json!({"k": c.k, "two_strand": c.rc, "min_count": c.min_count, "min_qual": c.min_qual, "rule": rule,
        "file1_reads": m.split, "reads": m.reads.iter().take(6).map(|(s, q)| format!("{}/{}", lossy(s), lossy(q))).collect::<Vec<_>>(), "n_reads": m.reads.len()})
}

fn stages(tier: Tier) -> Vec<Box<dyn Stage>> {
    vec![
        gen_stage_show("inproc", RULE, tier.pick(8000, 100_000), 400, case_strategy, check_inproc, show),
        gen_stage_show("cli", RULE, tier.pick(1200, 12_000), 150, case_strategy, check_cli, show),
        gen_stage_show("dense", DENSE_RULE, tier.pick(48, 640), 10, dense_strategy, check_dense, |c| serde_json::to_value(c).unwrap()),
    ]
}

pub fn def() -> PropDef {
    PropDef {
        id: "C12",
        level: "exploration",
        assumptions: &[
            "hash collisions of the counting filter are tolerated up to the property's own 0.1% bound (per case: max(1, 0.1%); aggregate over the run when >= 20000 distinct k-mers were seen)",
            "reads over ACGTN, qualities Phred+33",
        ],
        stages,
        post: Some(post),
    }
}
