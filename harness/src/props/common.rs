//! Helpers shared by property modules: drive the CLI, build files, parse outputs.

use std::path::Path;

use crate::cli::{self, run_ska, CmdOut};
use crate::engine::{Ctx, Outcome};
use crate::model::{self, Nk, SampleDict, Table};

pub type Sample = (String, Vec<Vec<u8>>);

/// Fail/Infra if the command did not succeed
pub fn must_ok(o: &CmdOut, what: &str) -> Result<(), Outcome> {
    if let Some(m) = o.infra() {
        return Err(Outcome::Infra(format!("{what}: {m}")));
    }
    if !o.ok() {
        return Err(Outcome::Fail(format!(
            "{what}: ska exited with {:?}: {}",
            o.code,
            o.err_tail()
        )));
    }
    Ok(())
}

/// the command must be refused: non-zero exit (not a signal, not a timeout)
pub fn must_refuse(o: &CmdOut, what: &str) -> Result<(), Outcome> {
    if let Some(m) = o.infra() {
        return Err(Outcome::Infra(format!("{what}: {m}")));
    }
    if o.ok() {
        return Err(Outcome::Fail(format!("{what}: ska accepted input it must refuse")));
    }
    Ok(())
}

/// write one FASTA per sample and a list file; returns the list path
pub fn write_samples(dir: &Path, tag: &str, samples: &[Sample], width: Option<usize>) -> String {
    let mut list = String::new();
    for (i, (name, recs)) in samples.iter().enumerate() {
        let f = dir.join(format!("{tag}_{i}.fa"));
        cli::write_fasta_auto(&f, recs, width);
        list += &format!("{}\t{}\n", name, cli::p(&f));
    }
    let lp = dir.join(format!("{tag}_list.txt"));
    std::fs::write(&lp, list).expect("list");
    cli::p(&lp)
}

/// `ska build -f list -o out -k K [--single-strand] [--threads N]`
pub fn build(
    ctx: &Ctx,
    dir: &Path,
    tag: &str,
    samples: &[Sample],
    k: usize,
    rc: bool,
    threads: usize,
) -> CmdOut {
    let list = write_samples(dir, tag, samples, None);
    let out = cli::p(&dir.join(tag));
    let ks = k.to_string();
    let ts = threads.to_string();
    let mut args: Vec<&str> = vec!["build", "-f", &list, "-o", &out, "-k", &ks];
    if !rc {
        args.push("--single-strand");
    }
    if threads > 1 {
        args.push("--threads");
        args.push(&ts);
    }
    run_ska(ctx, dir, &args)
}

pub fn nk(ctx: &Ctx, dir: &Path, skf: &str) -> Result<Nk, Outcome> {
    let o = run_ska(ctx, dir, &["nk", "--full-info", skf]);
    must_ok(&o, &format!("nk --full-info {skf}"))?;
    model::parse_nk(&o.out_str()).map_err(Outcome::Fail)
}

pub fn model_table(samples: &[Sample], k: usize, rc: bool) -> (Vec<SampleDict>, Table) {
    let dicts: Vec<SampleDict> = samples
        .iter()
        .map(|(_, recs)| model::build_sample(recs, k, rc))
        .collect();
    let names: Vec<String> = samples.iter().map(|(n, _)| n.clone()).collect();
    let t = Table::from_samples(&names, &dicts);
    (dicts, t)
}

pub fn sample_names(n: usize, prefix: &str) -> Vec<String> {
    (0..n).map(|i| format!("{prefix}{i}")).collect()
}

pub fn lossy(s: &[u8]) -> String {
    String::from_utf8_lossy(s).to_string()
}

pub fn k_bits_for(k: usize) -> u32 {
    if k <= 31 {
        64
    } else {
        128
    }
}

/// Build a `MergeSkaArray` of the given width from a symbol table through the public API
/// (MergeSkaDict::new + build_from_array + MergeSkaArray::new) and save it.
pub fn save_table<IntT>(t: &Table, k: usize, rc: bool, path: &Path, insertion_rev: bool) -> Result<(), String>
where
    IntT: for<'a> ska::ska_dict::bit_encoding::UInt<'a> + TryFrom<u128>,
{
    use ska::merge_ska_array::MergeSkaArray;
    use ska::merge_ska_dict::MergeSkaDict;
    let mut names = t.names.clone();
    let mut hm: hashbrown::HashMap<IntT, Vec<u8>> = hashbrown::HashMap::new();
    let mut rows: Vec<(&Vec<u8>, &Vec<u8>)> = t.rows.iter().collect();
    if insertion_rev {
        rows.reverse();
    }
    for (arms, syms) in rows {
        let x = model::pack_arms(arms);
        let key: IntT = match IntT::try_from(x) {
            Ok(v) => v,
            Err(_) => return Err("k-mer does not fit the integer width".to_string()),
        };
        hm.insert(key, syms.clone());
    }
    let mut d = MergeSkaDict::<IntT>::new(k, t.names.len(), rc);
    d.build_from_array(&mut names, &mut hm);
    let arr = MergeSkaArray::new(&d);
    arr.save(&cli::p(path)).map_err(|e| e.to_string())
}

/// content of a loaded array as a model table (decoded by the harness's own decoder)
pub fn array_table<IntT>(arr: &ska::merge_ska_array::MergeSkaArray<IntT>) -> Result<Table, String>
where
    IntT: for<'a> ska::ska_dict::bit_encoding::UInt<'a> + Into<u128>,
{
    let k = arr.kmer_len();
    let mut rows = std::collections::BTreeMap::new();
    for (kmer, syms) in arr.iter() {
        let arms = model::unpack_arms(kmer.into(), k);
        if rows.insert(arms, syms).is_some() {
            return Err("duplicate k-mer in array".to_string());
        }
    }
    Ok(Table {
        names: arr.names().clone(),
        rows,
    })
}

#[derive(Clone, Copy, Debug, PartialEq, Eq)]
pub enum Route {
    InProc64,
    InProc128,
    Cli,
}

/// in-process build through `build_and_merge` (threads = 1) -> table decoded by the harness
pub fn inproc_build<IntT>(files: &[(String, String)], k: usize, rc: bool) -> Result<Table, String>
where
    IntT: for<'a> ska::ska_dict::bit_encoding::UInt<'a> + Into<u128>,
{
    use ska::merge_ska_dict::{build_and_merge, InputFastx};
    use ska::{QualFilter, QualOpts};
    let q = QualOpts {
        min_count: 1,
        min_qual: 0,
        qual_filter: QualFilter::NoFilter,
    };
    let input: Vec<InputFastx> = files
        .iter()
        .map(|(n, f)| (n.clone(), f.clone(), None))
        .collect();
    let r = std::panic::catch_unwind(std::panic::AssertUnwindSafe(|| {
        let d = build_and_merge::<IntT>(&input, k, rc, &q, 1, None);
        let mut rows = std::collections::BTreeMap::new();
        for (kmer, syms) in d.kmer_dict() {
            let v: Vec<u8> = syms.iter().map(|b| if *b == 0 { b'-' } else { *b }).collect();
            rows.insert(model::unpack_arms((*kmer).into(), k), v);
        }
        (d.kmer_len(), d.rc(), Table { names: d.names().clone(), rows })
    }));
    match r {
        Err(e) => Err(panic_msg(&e)),
        Ok((k2, rc2, t)) => {
            if k2 != k || rc2 != rc {
                Err(format!("PROP merged dictionary reports k={k2} rc={rc2}"))
            } else {
                Ok(t)
            }
        }
    }
}

pub fn panic_msg(e: &Box<dyn std::any::Any + Send>) -> String {
    if let Some(s) = e.downcast_ref::<String>() {
        s.clone()
    } else if let Some(s) = e.downcast_ref::<&str>() {
        s.to_string()
    } else {
        "panic".into()
    }
}

/// Build the samples (files already written; `files` = (name, path)) by the chosen route.
/// Ok(table) or Err(refusal message). Infra problems come back as Err("INFRA ...").
pub fn observe_build(ctx: &Ctx, dir: &Path, tag: &str, files: &[(String, String)], k: usize, rc: bool, route: Route) -> Result<Table, String> {
    match route {
        Route::InProc64 => inproc_build::<u64>(files, k, rc),
        Route::InProc128 => inproc_build::<u128>(files, k, rc),
        Route::Cli => {
            let mut list = String::new();
            for (n, f) in files {
                list += &format!("{n}\t{f}\n");
            }
            let lp = dir.join(format!("{tag}_list.txt"));
            std::fs::write(&lp, list).expect("list");
            let out = cli::p(&dir.join(tag));
            let ks = k.to_string();
            let lps = cli::p(&lp);
            let mut args: Vec<&str> = vec!["build", "-f", &lps, "-o", &out, "-k", &ks];
            if !rc {
                args.push("--single-strand");
            }
            let o = run_ska(ctx, dir, &args);
            if let Some(m) = o.infra() {
                return Err(format!("INFRA {m}"));
            }
            if !o.ok() {
                return Err(o.err_tail());
            }
            let o2 = run_ska(ctx, dir, &["nk", "--full-info", &format!("{out}.skf")]);
            if let Some(m) = o2.infra() {
                return Err(format!("INFRA {m}"));
            }
            if !o2.ok() {
                return Err(format!("PROP nk failed on a file ska build just wrote: {}", o2.err_tail()));
            }
            let nk = model::parse_nk(&o2.out_str()).map_err(|e| format!("PROP {e}"))?;
            if nk.header.get("k").map(|s| s.as_str()) != Some(&k.to_string()) || nk.header.get("rc").map(|s| s.as_str()) != Some(&rc.to_string()) {
                return Err(format!("PROP nk header k/rc wrong: {:?}", nk.header));
            }
            if nk.duplicate_rows > 0 {
                return Err("PROP duplicate rows in nk".into());
            }
            Ok(nk.table())
        }
    }
}

/// first difference between two tables, for messages
pub fn table_diff(a: &Table, b: &Table) -> String {
    if a.names != b.names {
        return format!("names {:?} vs {:?}", a.names, b.names);
    }
    let mut msg = String::new();
    let mut n = 0;
    for (arms, r) in &a.rows {
        match b.rows.get(arms) {
            None => {
                n += 1;
                if n <= 4 {
                    msg += &format!(" only-left {}:{};", model::show_arms(arms), lossy(r));
                }
            }
            Some(r2) if r2 != r => {
                n += 1;
                if n <= 4 {
                    msg += &format!(" {}: {} vs {};", model::show_arms(arms), lossy(r), lossy(r2));
                }
            }
            _ => {}
        }
    }
    for (arms, r) in &b.rows {
        if !a.rows.contains_key(arms) {
            n += 1;
            if n <= 6 {
                msg += &format!(" only-right {}:{};", model::show_arms(arms), lossy(r));
            }
        }
    }
    format!("{n} row differences ({} vs {} rows):{msg}", a.rows.len(), b.rows.len())
}
