//! Helpers shared by property modules: drive the CLI, build files, parse outputs.

use std::path::Path;

use crate::cli::{self, run_ska, CmdOut};
use crate::engine::{Ctx, Outcome};
use crate::model::{self, Nk, SampleDict, Table};

pub type Sample = (String, Vec<Vec<u8>>);

/// Fail/Infra if the command did not succeed
pub fn must_ok(o: &CmdOut, what: &str) -> Result<(), Outcome> {
    if let Some(m) = o.infra() {
        return Err(Outcome::Infra(format!("{what}: {m}")));
    }
    if !o.ok() {
        return Err(Outcome::Fail(format!(
            "{what}: ska exited with {:?}: {}",
            o.code,
            o.err_tail()
        )));
    }
    Ok(())
}

/// the command must be refused: non-zero exit (not a signal, not a timeout)
pub fn must_refuse(o: &CmdOut, what: &str) -> Result<(), Outcome> {
    if let Some(m) = o.infra() {
        return Err(Outcome::Infra(format!("{what}: {m}")));
    }
    if o.ok() {
        return Err(Outcome::Fail(format!("{what}: ska accepted input it must refuse")));
    }
    Ok(())
}

/// write one FASTA per sample and a list file; returns the list path
pub fn write_samples(dir: &Path, tag: &str, samples: &[Sample], width: Option<usize>) -> String {
    let mut list = String::new();
    for (i, (name, recs)) in samples.iter().enumerate() {
        let f = dir.join(format!("{tag}_{i}.fa"));
        cli::write_fasta_auto(&f, recs, width);
        list += &format!("{}\t{}\n", name, cli::p(&f));
    }
    let lp = dir.join(format!("{tag}_list.txt"));
    std::fs::write(&lp, list).expect("list");
    cli::p(&lp)
}

/// `ska build -f list -o out -k K [--single-strand] [--threads N]`
pub fn build(
    ctx: &Ctx,
    dir: &Path,
    tag: &str,
    samples: &[Sample],
    k: usize,
    rc: bool,
    threads: usize,
) -> CmdOut {
    let list = write_samples(dir, tag, samples, None);
    let out = cli::p(&dir.join(tag));
    let ks = k.to_string();
    let ts = threads.to_string();
    let mut args: Vec<&str> = vec!["build", "-f", &list, "-o", &out, "-k", &ks];
    if !rc {
        args.push("--single-strand");
    }
    if threads > 1 {
        args.push("--threads");
        args.push(&ts);
    }
    run_ska(ctx, dir, &args)
}

pub fn nk(ctx: &Ctx, dir: &Path, skf: &str) -> Result<Nk, Outcome> {
    let o = run_ska(ctx, dir, &["nk", "--full-info", skf]);
    must_ok(&o, &format!("nk --full-info {skf}"))?;
    model::parse_nk(&o.out_str()).map_err(Outcome::Fail)
}

pub fn model_table(samples: &[Sample], k: usize, rc: bool) -> (Vec<SampleDict>, Table) {
    let dicts: Vec<SampleDict> = samples
        .iter()
        .map(|(_, recs)| model::build_sample(recs, k, rc))
        .collect();
    let names: Vec<String> = samples.iter().map(|(n, _)| n.clone()).collect();
    let t = Table::from_samples(&names, &dicts);
    (dicts, t)
}

pub fn sample_names(n: usize, prefix: &str) -> Vec<String> {
    (0..n).map(|i| format!("{prefix}{i}")).collect()
}

pub fn lossy(s: &[u8]) -> String {
    String::from_utf8_lossy(s).to_string()
}

pub fn k_bits_for(k: usize) -> u32 {
    if k <= 31 {
        64
    } else {
        128
    }
}

/// Build a `MergeSkaArray` of the given width from a symbol table through the public API
/// (MergeSkaDict::new + build_from_array + MergeSkaArray::new) and save it.
pub fn save_table<IntT>(t: &Table, k: usize, rc: bool, path: &Path, insertion_rev: bool) -> Result<(), String>
where
    IntT: for<'a> ska::ska_dict::bit_encoding::UInt<'a> + TryFrom<u128>,
{
    use ska::merge_ska_array::MergeSkaArray;
    use ska::merge_ska_dict::MergeSkaDict;
    let mut names = t.names.clone();
    let mut hm: hashbrown::HashMap<IntT, Vec<u8>> = hashbrown::HashMap::new();
    let mut rows: Vec<(&Vec<u8>, &Vec<u8>)> = t.rows.iter().collect();
    if insertion_rev {
        rows.reverse();
    }
    for (arms, syms) in rows {
        let x = model::pack_arms(arms);
        let key: IntT = match IntT::try_from(x) {
            Ok(v) => v,
            Err(_) => return Err("k-mer does not fit the integer width".to_string()),
        };
        hm.insert(key, syms.clone());
    }
    let mut d = MergeSkaDict::<IntT>::new(k, t.names.len(), rc);
    d.build_from_array(&mut names, &mut hm);
    let arr = MergeSkaArray::new(&d);
    arr.save(&cli::p(path)).map_err(|e| e.to_string())
}

/// content of a loaded array as a model table (decoded by the harness's own decoder)
pub fn array_table<IntT>(arr: &ska::merge_ska_array::MergeSkaArray<IntT>) -> Result<Table, String>
where
    IntT: for<'a> ska::ska_dict::bit_encoding::UInt<'a> + Into<u128>,
{
    let k = arr.kmer_len();
    let mut rows = std::collections::BTreeMap::new();
    for (kmer, syms) in arr.iter() {
        let arms = model::unpack_arms(kmer.into(), k);
        if rows.insert(arms, syms).is_some() {
            return Err("duplicate k-mer in array".to_string());
        }
    }
    Ok(Table {
        names: arr.names().clone(),
        rows,
    })
}

#[derive(Clone, Copy, Debug, PartialEq, Eq)]
pub enum Route {
    InProc64,
    InProc128,
    Cli,
}

/// in-process build through `build_and_merge` (threads = 1) -> table decoded by the harness
pub fn inproc_build<IntT>(files: &[(String, String)], k: usize, rc: bool) -> Result<Table, String>
where
    IntT: for<'a> ska::ska_dict::bit_encoding::UInt<'a> + Into<u128>,
{
    use ska::merge_ska_dict::{build_and_merge, InputFastx};
    use ska::{QualFilter, QualOpts};
    let q = QualOpts {
        min_count: 1,
        min_qual: 0,
        qual_filter: QualFilter::NoFilter,
    };
    let input: Vec<InputFastx> = files
        .iter()
        .map(|(n, f)| (n.clone(), f.clone(), None))
        .collect();
    let r = std::panic::catch_unwind(std::panic::AssertUnwindSafe(|| {
        let d = build_and_merge::<IntT>(&input, k, rc, &q, 1, None);
        let mut rows = std::collections::BTreeMap::new();
        for (kmer, syms) in d.kmer_dict() {
            let v: Vec<u8> = syms.iter().map(|b| if *b == 0 { b'-' } else { *b }).collect();
            rows.insert(model::unpack_arms((*kmer).into(), k), v);
        }
        (d.kmer_len(), d.rc(), Table { names: d.names().clone(), rows })
    }));
    match r {
        Err(e) => Err(panic_msg(&e)),
        Ok((k2, rc2, t)) => {
            if k2 != k || rc2 != rc {
                Err(format!("PROP merged dictionary reports k={k2} rc={rc2}"))
            } else {
                Ok(t)
            }
        }
    }
}

pub fn panic_msg(e: &Box<dyn std::any::Any + Send>) -> String {
    if let Some(s) = e.downcast_ref::<String>() {
        s.clone()
    } else if let Some(s) = e.downcast_ref::<&str>() {
        s.to_string()
    } else {
        "panic".into()
    }
}

/// Build the samples (files already written; `files` = (name, path)) by the chosen route.
/// Ok(table) or Err(refusal message). Infra problems come back as Err("INFRA ...").
pub fn observe_build(ctx: &Ctx, dir: &Path, tag: &str, files: &[(String, String)], k: usize, rc: bool, route: Route) -> Result<Table, String> {
    match route {
        Route::InProc64 => inproc_build::<u64>(files, k, rc),
        Route::InProc128 => inproc_build::<u128>(files, k, rc),
        Route::Cli => {
            let mut list = String::new();
            for (n, f) in files {
                list += &format!("{n}\t{f}\n");
            }
            let lp = dir.join(format!("{tag}_list.txt"));
            std::fs::write(&lp, list).expect("list");
            let out = cli::p(&dir.join(tag));
            let ks = k.to_string();
            let lps = cli::p(&lp);
            let mut args: Vec<&str> = vec!["build", "-f", &lps, "-o", &out, "-k", &ks];
            if !rc {
                args.push("--single-strand");
            }
            let o = run_ska(ctx, dir, &args);
            if let Some(m) = o.infra() {
                return Err(format!("INFRA {m}"));
            }
            if !o.ok() {
                return Err(o.err_tail());
            }
            let o2 = run_ska(ctx, dir, &["nk", "--full-info", &format!("{out}.skf")]);
            if let Some(m) = o2.infra() {
                return Err(format!("INFRA {m}"));
            }
            if !o2.ok() {
                return Err(format!("PROP nk failed on a file ska build just wrote: {}", o2.err_tail()));
            }
            let nk = model::parse_nk(&o2.out_str()).map_err(|e| format!("PROP {e}"))?;
            if nk.header.get("k").map(|s| s.as_str()) != Some(&k.to_string()) || nk.header.get("rc").map(|s| s.as_str()) != Some(&rc.to_string()) {
                return Err(format!("PROP nk header k/rc wrong: {:?}", nk.header));
            }
            if nk.duplicate_rows > 0 {
                return Err("PROP duplicate rows in nk".into());
            }
            Ok(nk.table())
        }
    }
}

/// first difference between two tables, for messages
pub fn table_diff(a: &Table, b: &Table) -> String {
    if a.names != b.names {
        return format!("names {:?} vs {:?}", a.names, b.names);
    }
    let mut msg = String::new();
    let mut n = 0;
    for (arms, r) in &a.rows {
        match b.rows.get(arms) {
            None => {
                n += 1;
                if n <= 4 {
                    msg += &format!(" only-left {}:{};", model::show_arms(arms), lossy(r));
                }
            }
            Some(r2) if r2 != r => {
                n += 1;
                if n <= 4 {
                    msg += &format!(" {}: {} vs {};", model::show_arms(arms), lossy(r), lossy(r2));
                }
            }
            _ => {}
        }
    }
    for (arms, r) in &b.rows {
        if !a.rows.contains_key(arms) {
            n += 1;
            if n <= 6 {
                msg += &format!(" only-right {}:{};", model::show_arms(arms), lossy(r));
            }
        }
    }
    format!("{n} row differences ({} vs {} rows):{msg}", a.rows.len(), b.rows.len())
}

/// in-memory array from a symbol table (public API only)
pub fn make_array<IntT>(t: &Table, k: usize, rc: bool, insertion_rev: bool) -> Result<ska::merge_ska_array::MergeSkaArray<IntT>, String>
where
    IntT: for<'a> ska::ska_dict::bit_encoding::UInt<'a> + TryFrom<u128>,
{
    use ska::merge_ska_array::MergeSkaArray;
    use ska::merge_ska_dict::MergeSkaDict;
    let mut names = t.names.clone();
    let mut hm: hashbrown::HashMap<IntT, Vec<u8>> = hashbrown::HashMap::new();
    let mut rows: Vec<(&Vec<u8>, &Vec<u8>)> = t.rows.iter().collect();
    if insertion_rev {
        rows.reverse();
    }
    for (arms, syms) in rows {
        let key: IntT = match IntT::try_from(model::pack_arms(arms)) {
            Ok(v) => v,
            Err(_) => return Err("k-mer does not fit the integer width".to_string()),
        };
        hm.insert(key, syms.clone());
    }
    let mut d = MergeSkaDict::<IntT>::new(k, t.names.len(), rc);
    d.build_from_array(&mut names, &mut hm);
    Ok(MergeSkaArray::new(&d))
}

/// A generated symbol table: rows of symbols, arms derived from the row index
#[derive(Clone, Debug, serde::Serialize, serde::Deserialize)]
pub struct TableCase {
    pub k: usize,
    pub rc: bool,
    pub n: usize,
    /// each row is padded/truncated to n symbols cyclically
    pub rows: Vec<Vec<u8>>,
    /// spread of k-mer integers
    pub stride: u16,
}

impl TableCase {
    pub fn table(&self) -> Table {
        let n = self.n.max(1);
        let names = sample_names(n, "t");
        let mut rows = std::collections::BTreeMap::new();
        let space: u128 = if self.k >= 33 { u128::MAX >> 2 } else { 1u128 << (2 * (self.k - 1)) };
        let stride = (self.stride as u128 * 2 + 1) % space;
        for (i, r) in self.rows.iter().enumerate() {
            let mut v: Vec<u8> = (0..n).map(|j| if r.is_empty() { b'-' } else { r[j % r.len()] }).collect();
            if v.iter().all(|b| *b == b'-') {
                v[i % n] = [b'A', b'C', b'G', b'T'][i % 4];
            }
            let x = if self.k >= 33 {
                // use the high bits too
                ((i as u128 + 1) * stride) ^ ((i as u128 + 1) << (2 * (self.k - 1) - 20))
            } else {
                ((i as u128 + 1) * stride) % space
            };
            let arms = model::unpack_arms(x % (1u128 << (2 * (self.k - 1)).min(127)), self.k);
            rows.entry(arms).or_insert(v);
        }
        Table { names, rows }
    }
}

pub fn table_case_strategy(max_samples: usize, max_rows: usize, allow_ambig: bool) -> proptest::strategy::BoxedStrategy<TableCase> {
    use proptest::prelude::*;
    let ks = prop::sample::select(vec![5usize, 7, 17, 31, 33, 63]);
    (ks, any::<bool>(), 1..=max_samples, 0u32..60, 0u32..50, any::<u16>())
        .prop_flat_map(move |(k, rc, n, pgap, pamb, stride)| {
            let sym = if allow_ambig {
                crate::gen::symbol_strategy(pgap, pamb)
            } else {
                prop_oneof![
                    (100 - pgap).max(1) => prop::sample::select(vec![b'A', b'C', b'G', b'T']),
                    pgap.max(1) => Just(b'-'),
                ]
                .boxed()
            };
            // rows: some fully random, some constant, some constant-plus-gap
            let row = prop_oneof![
                6 => proptest::collection::vec(sym.clone(), n..=n),
                1 => (sym.clone()).prop_map(move |s| vec![s; n]),
                2 => (sym.clone(), proptest::collection::vec(any::<bool>(), n..=n)).prop_map(|(s, m)| m.iter().map(|g| if *g { b'-' } else { s }).collect()),
            ];
            (Just(k), Just(rc), Just(n), proptest::collection::vec(row, 1..=max_rows), Just(stride))
        })
        .prop_map(|(k, rc, n, rows, stride)| TableCase { k, rc, n, rows, stride })
        .boxed()
}

/// min-freq selector whose threshold is immune to floating point noise
#[derive(Clone, Copy, Debug, serde::Serialize, serde::Deserialize, PartialEq)]
pub enum Freq {
    Zero,
    One,
    /// (j - 0.5)/n with j = 1 + idx(sel, n)
    Half(u16),
    /// m/8, m in 1..8
    Dyadic(u8),
    /// j/n with j = 1 + idx(sel, n); only used where n*(j/n) == j exactly in f64 (see `exact`)
    Ratio(u16),
    /// 0.9, the documented default of align and weed (0.9 n is either an exact integer, for n a multiple
    /// of 10, or at least 0.1 away from one, so ceil() is immune to floating-point noise)
    Point9,
}

impl Freq {
    pub fn value(&self, n: usize) -> f64 {
        match self {
            Freq::Zero => 0.0,
            Freq::One => 1.0,
            Freq::Half(s) => ((1 + crate::gen::idx(*s, n)) as f64 - 0.5) / n as f64,
            Freq::Dyadic(m) => (*m as f64) / 8.0,
            // j/n where that is safe (see `exact`), otherwise the noise-immune (j-0.5)/n with the same threshold
            Freq::Ratio(s) => if self.exact(n) { (1 + crate::gen::idx(*s, n)) as f64 / n as f64 } else { ((1 + crate::gen::idx(*s, n)) as f64 - 0.5) / n as f64 },
            Freq::Point9 => 0.9,
        }
    }
    /// ceil(f*n)
    pub fn ceil(&self, n: usize) -> usize {
        match self {
            Freq::Zero => 0,
            Freq::One => n,
            Freq::Half(s) => 1 + crate::gen::idx(*s, n),
            Freq::Dyadic(m) => (n * (*m as usize) + 7) / 8,
            Freq::Ratio(s) => 1 + crate::gen::idx(*s, n),
            Freq::Point9 => (9 * n + 9) / 10,
        }
    }
    /// is f*n an exact integer (then floor == ceil, needed for `ska weed`)
    pub fn exact(&self, n: usize) -> bool {
        match self {
            Freq::Zero | Freq::One => true,
            Freq::Half(_) => false,
            Freq::Point9 => n % 10 == 0,
            Freq::Dyadic(m) => (n * (*m as usize)) % 8 == 0,
            Freq::Ratio(s) => {
                let j = (1 + crate::gen::idx(*s, n)) as f64;
                // the same f64 arithmetic ska performs, after the decimal round trip of the argument
                let f: f64 = format!("{}", j / n as f64).parse().unwrap();
                n as f64 * f == j
            }
        }
    }
    pub fn arg(&self, n: usize) -> String {
        format!("{}", self.value(n))
    }
}

pub fn freq_strategy() -> proptest::strategy::BoxedStrategy<Freq> {
    use proptest::prelude::*;
    prop_oneof![
        2 => Just(Freq::Zero),
        2 => Just(Freq::One),
        5 => any::<u16>().prop_map(Freq::Half),
        3 => (1u8..8).prop_map(Freq::Dyadic),
        2 => Just(Freq::Point9),
        // j/n exactly on a threshold (only where n*(j/n) == j in the f64 arithmetic ska performs; else it acts as Half)
        3 => any::<u16>().prop_map(Freq::Ratio),
    ]
    .boxed()
}

/// A table with an exact number of rows of two kinds, for block-boundary sizes: `surv` rows in which
/// at least one sample outside `special` has a base, and `gone` rows in which only samples inside
/// `special` (a bit mask over the `n` samples) have one. Arms are distinct by construction.
pub fn sized_table(k: usize, n: usize, special: u32, surv: usize, gone: usize, stride: u16, salt: u64) -> Table {
    let names: Vec<String> = (0..n).map(crate::gen::set_sample_name).collect();
    let keep: Vec<usize> = (0..n).filter(|j| special >> j & 1 == 0).collect();
    let spec: Vec<usize> = (0..n).filter(|j| special >> j & 1 == 1).collect();
    assert!(!keep.is_empty() && (!spec.is_empty() || gone == 0));
    let bits = 2 * (k - 1);
    let odd = stride as u128 * 2 + 1;
    let mut rows = std::collections::BTreeMap::new();
    for i in 0..surv + gone {
        let mut x = ((i as u128 + 1) * odd) % (1u128 << bits.min(100));
        if bits > 60 {
            x |= (i as u128 + 1) << 44;
        }
        let mut v = vec![b'-'; n];
        let h = |j: usize| crate::engine::splitmix64(salt ^ (i as u64) << 8 ^ j as u64);
        let (must, may): (&Vec<usize>, &[usize]) = if i < surv { (&keep, &spec[..]) } else { (&spec, &[]) };
        for j in must.iter().chain(may.iter()) {
            let r = h(*j);
            if r % 5 != 0 {
                // mostly bases; one symbol in ten is an ambiguity code (N included): present, not missing
                v[*j] = if (r >> 20) % 10 == 0 { b"RYSWKMBDHVN"[(r >> 28) as usize % 11] } else { model::BASES[(r >> 8) as usize % 4] };
            }
        }
        if must.iter().all(|j| v[*j] == b'-') {
            let j = must[(h(99) as usize) % must.len()];
            v[j] = model::BASES[(h(98) >> 8) as usize % 4];
        }
        rows.insert(model::unpack_arms(x, k), v);
    }
    assert_eq!(rows.len(), surv + gone);
    Table { names, rows }
}

/// row counts on and next to block sizes that row-processing code is likely to use
pub const BOUNDARY_SIZES: [usize; 18] = [255, 256, 257, 1023, 1024, 1025, 2047, 2048, 2049, 3072, 4095, 4096, 4097, 8192, 12288, 65535, 65536, 65537];

pub fn show_samples(samples: &[Sample]) -> String {
    format!("{:?}", samples.iter().map(|(n, r)| (n.clone(), r.iter().map(|x| lossy(x)).collect::<Vec<_>>())).collect::<Vec<_>>())
}

/// one name per line, in the layouts a text editor may leave: with or without a final newline,
/// Windows line endings, a trailing blank line, trailing white space
pub fn names_file_text(names: &[String], variant: usize) -> String {
    match variant % 5 {
        0 => names.join("\n") + "\n",
        1 => names.join("\n"),
        2 => names.join("\r\n") + "\r\n",
        3 => names.join("\n") + "\n\n",
        _ => names.iter().map(|n| format!("{n} \t")).collect::<Vec<_>>().join("\n") + "\n",
    }
}

/// sample counts on and next to word / block sizes that per-row code is likely to use
pub const BOUNDARY_SAMPLES: [usize; 15] = [8, 9, 15, 16, 17, 31, 32, 33, 63, 64, 65, 127, 128, 129, 200];

/// A large symbol table that is a pure function of its parameters: `rows` rows over `n` samples with
/// distinct arms. Row kinds (by row hash): constant; constant with gaps; constant except for ONE sample
/// (anywhere, so also in the last few columns); two alleles split at a column; the rest random symbols
/// with `pgap` % gaps and `pamb` % ambiguity codes. Every row has at least one non-gap symbol.
pub fn big_symbol_table(k: usize, n: usize, rows: usize, salt: u64, pgap: u8, pamb: u8, stride: u16) -> Table {
    let names: Vec<String> = (0..n).map(crate::gen::set_sample_name).collect();
    let bits = 2 * (k - 1);
    let odd = stride as u128 * 2 + 1;
    const AMB: [u8; 11] = *b"RYSWKMBDHVN";
    let mut out = std::collections::BTreeMap::new();
    for i in 0..rows {
        let mut x = ((i as u128 + 1) * odd) % (1u128 << bits.min(100));
        if bits > 60 {
            x |= (i as u128 + 1) << 44;
        }
        let h = |j: u64| crate::engine::splitmix64(salt ^ ((i as u64) << 20) ^ j);
        let sym = |r: u64| -> u8 {
            let p = (r % 100) as u8;
            if p < pgap {
                b'-'
            } else if p < pgap.saturating_add(pamb) {
                AMB[(r >> 16) as usize % AMB.len()]
            } else {
                model::BASES[(r >> 16) as usize % 4]
            }
        };
        let b0 = model::BASES[(h(1_000_001) >> 3) as usize % 4];
        let b1 = model::BASES[((h(1_000_001) >> 3) as usize + 1 + (h(1_000_002) as usize % 3)) % 4];
        let pos = (h(1_000_003) % n as u64) as usize;
        let mut v: Vec<u8> = match h(1_000_000) % 8 {
            0 => vec![b0; n],
            1 => (0..n).map(|j| if h(j as u64) % 100 < pgap.max(10) as u64 { b'-' } else { b0 }).collect(),
            2 => (0..n).map(|j| if j == pos { if pamb > 0 && h(7) % 3 == 0 { AMB[h(8) as usize % AMB.len()] } else { b1 } } else { b0 }).collect(),
            3 => (0..n).map(|j| if j < pos { b0 } else { b1 }).collect(),
            _ => (0..n).map(|j| sym(h(j as u64))).collect(),
        };
        if v.iter().all(|b| *b == b'-') {
            v[pos] = b0;
        }
        out.insert(model::unpack_arms(x, k), v);
    }
    assert_eq!(out.len(), rows);
    Table { names, rows: out }
}
