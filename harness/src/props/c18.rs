//! C18 — ska lo indel calls are real and genotyped correctly.

use std::sync::atomic::{AtomicU64, Ordering};

use proptest::prelude::*;
use serde::{Deserialize, Serialize};
use serde_json::json;

use super::common::*;
use super::PropDef;
use crate::cli::run_ska;
use crate::engine::{gen_stage_show, key_of, pass, Ctx, Outcome, Runtime, Stage, Tier};
use crate::gen;
use crate::model;

#[derive(Clone, Debug, Serialize, Deserialize)]
pub struct Case {
    pub k: usize,
    pub n_samples: usize,
    pub material: Vec<u8>,
    pub lead: u16,
    pub tail: u16,
    /// per indel: (extra gap selector, length selector, carrier bits (cyclic))
    pub indels: Vec<(u16, u16, Vec<bool>)>,
    pub orient: Vec<bool>,
    pub threads: u8,
    /// one sample truncated before some indel (then neither form is present: genotype must be '.'): (sample selector, cut selector)
    #[serde(default)]
    pub trunc: Option<(u16, u16)>,
    /// the second indel removes the same sequence from the same carriers as the first (a recurrent
    /// event at another locus: two distinct indels that must both be reported)
    #[serde(default)]
    pub twin: bool,
    /// a single indel of a sequence equal to its own reverse complement (a restriction site, AT, ...) between
    /// inverted flanks W .. rc(W), |W| >= k-1: (site selector, extra flank length). Every (k-1)-mer still
    /// occurs once in the sequence as written; only the two strands of the locus read alike
    #[serde(default)]
    pub hairpin: Option<(u8, u8)>,
    /// the second indel sits between near-copies of the first one's flanks: the k-1 bases before and behind it are
    /// those of the first locus with one substitution each, at the same distance from the junction on either
    /// side (a diverged duplicate of the locus; every (k-1)-mer still unique): (distance selector, base, base)
    #[serde(default)]
    pub paralog: Option<(u8, u8, u8)>,
    /// one sample (of >= 4) also holds, as a second record, its own sequence with one indel in the other form (a
    /// mixture, or two assemblies of one isolate): it carries both alleles there, whatever it is genotyped as must
    /// say so: (sample selector, indel selector)
    #[serde(default)]
    pub mixed: Option<(u16, u16)>,
    /// the first indel is one unit of a tandem repeat: behind it the unit is repeated over k-3, k-4, k-5 or k-6
    /// bases (selector), then the periodicity breaks
    #[serde(default)]
    pub str_tract: Option<u8>,
}

fn case_strategy() -> BoxedStrategy<Case> {
    (
        prop::sample::select(vec![11usize, 15, 21, 31]),
        3usize..=8,
        proptest::collection::vec(0u8..4, 300..800),
        any::<u16>(),
        any::<u16>(),
        proptest::collection::vec((any::<u16>(), any::<u16>(), proptest::collection::vec(any::<bool>(), 2..8)), 1..4),
        proptest::collection::vec(any::<bool>(), 1..6),
        prop::sample::select(vec![1u8, 1, 2, 3, 4]),
        prop_oneof![2 => Just(None), 1 => (any::<u16>(), any::<u16>()).prop_map(Some)],
        prop::bool::weighted(0.3),
        prop_oneof![6 => Just(None), 1 => (any::<u8>(), any::<u8>()).prop_map(Some)],
        (prop_oneof![1 => Just(None), 1 => (any::<u8>(), 1u8..4, 1u8..4).prop_map(Some)], prop_oneof![7 => Just(None), 1 => (any::<u16>(), any::<u16>()).prop_map(Some)], prop_oneof![6 => Just(None), 1 => any::<u8>().prop_map(Some)]),
    )
        .prop_map(|(k, n_samples, material, lead, tail, indels, orient, threads, trunc, twin, hairpin, (paralog, mixed, str_tract))| Case { k, n_samples, material, lead, tail, indels, orient, threads, trunc, twin, hairpin, paralog, mixed, str_tract })
        .boxed()
}

pub struct Mat {
    pub ancestor: Vec<u8>,
    /// (position, length, carriers of the deletion)
    pub indels: Vec<(usize, usize, Vec<bool>)>,
    pub fwd: Vec<Vec<u8>>,
    pub samples: Vec<Sample>,
    /// (sample, cut position in ancestor coordinates) of the truncated sample
    pub trunc: Option<(usize, usize)>,
    /// (sample, indel, the sample's second record in forward orientation) of the sample that carries both forms
    pub mixed: Option<(usize, usize, Vec<u8>)>,
}

const SELF_RC_SITES: [&[u8]; 14] = [b"AT", b"GC", b"TA", b"CG", b"ACGT", b"TGCA", b"GATC", b"CATG", b"GAATTC", b"GGATCC", b"AAGCTT", b"GTCGAC", b"ACGCGT", b"AGATCT"];

/// L . W . site . rc(W) . R with one indel (the site): see `Case::hairpin`
fn materialise_hairpin(c: &Case, site_sel: u8, extra: u8) -> Result<Mat, String> {
    let k = c.k;
    let w = k - 1;
    let site = SELF_RC_SITES[site_sel as usize % SELF_RC_SITES.len()];
    let wl = w + extra as usize % 5;
    let ll = 2 * k + gen::idx(c.lead, k / 2 + 1);
    let rl = 2 * k + gen::idx(c.tail, 2 * k);
    let mut seen = std::collections::HashSet::new();
    let mut anc = gen::unique_seq(&c.material, ll + wl, w, false, &mut seen).ok_or("no unique extension")?;
    let arm = anc[ll..].to_vec();
    anc.extend_from_slice(site);
    anc.extend(model::revcomp(&arm));
    let (pa, pb) = (ll, anc.len());
    // windows inside the symmetric part are their mirror image's reverse complement; everything else stays unique
    for i in (ll + wl + 1).saturating_sub(w)..=(anc.len() - w) {
        seen.insert(gen::word_key(&anc[i..i + w], false).0);
    }
    for i in 0..rl {
        let m = c.material[(i * 7 + 3) % c.material.len()] as usize & 3;
        let mut placed = false;
        for t in 0..4 {
            anc.push(model::BASES[(m + t) % 4]);
            let (key, self_rc) = gen::word_key(&anc[anc.len() - w..], false);
            if self_rc || seen.contains(&key) {
                anc.pop();
                continue;
            }
            seen.insert(key);
            placed = true;
            break;
        }
        if !placed {
            return Err("no unique extension".into());
        }
    }
    let (p, ln) = (ll + wl, site.len());
    let carr = &c.indels[0].2;
    let mut cs: Vec<bool> = (0..c.n_samples).map(|j| carr[j % carr.len()]).collect();
    if cs.iter().all(|x| *x) {
        cs[0] = false;
    }
    if cs.iter().all(|x| !*x) {
        cs[1 % c.n_samples] = true;
    }
    let mut fwd = Vec::new();
    let mut items: Vec<(Vec<u8>, Vec<(usize, usize)>)> = Vec::new();
    for j in 0..c.n_samples {
        let mut sq = anc.clone();
        let mut coord: Vec<usize> = (0..anc.len()).collect();
        if cs[j] {
            sq.drain(p..p + ln);
            coord.drain(p..p + ln);
        }
        // origin of a window: its first and last ancestor coordinate, mirrored to the left half inside the symmetric part
        let origins = (0..=(sq.len() - w))
            .map(|i| {
                let (a, b) = (coord[i], coord[i + w - 1]);
                if a >= pa && b < pb { std::cmp::min((a, b), (pa + pb - 1 - b, pa + pb - 1 - a)) } else { (a, b) }
            })
            .collect();
        items.push((sq.clone(), origins));
        fwd.push(sq);
    }
    let mut map: std::collections::HashMap<Vec<u8>, (usize, usize)> = std::collections::HashMap::new();
    for (seq, origins) in &items {
        for i in 0..=(seq.len() - w) {
            let (key, self_rc) = gen::word_key(&seq[i..i + w], false);
            let (a, b) = origins[i];
            if self_rc && !(a >= pa && b < pb) {
                return Err("a (k-1)-mer outside the symmetric locus is its own reverse complement".into());
            }
            match map.get(&key) {
                Some((a1, b1)) => {
                    if *a1 != a && *b1 != b {
                        return Err("(k-1)-mers not unique over the union of the derived samples".into());
                    }
                }
                None => {
                    map.insert(key, (a, b));
                }
            }
        }
    }
    // as written, every (k-1)-mer occurs once per sample
    for sq in &fwd {
        let mut set = std::collections::HashSet::new();
        for i in 0..=(sq.len() - w) {
            if !set.insert(&sq[i..i + w]) {
                return Err("a (k-1)-mer occurs twice in the sequence as written".into());
            }
        }
    }
    let samples = fwd
        .iter()
        .enumerate()
        .map(|(j, sq)| (format!("{}{j}", ["m", "c", "x", "a", "t", "g", "p", "e", "z", "k"][j % 10]), vec![if c.orient[j % c.orient.len()] { model::revcomp(sq) } else { sq.clone() }]))
        .collect();
    Ok(Mat { ancestor: anc, indels: vec![(p, ln, cs)], fwd, samples, trunc: None, mixed: None })
}

pub fn materialise(c: &Case) -> Result<Mat, String> {
    if let Some((site_sel, extra)) = c.hairpin {
        return materialise_hairpin(c, site_sel, extra);
    }
    let k = c.k;
    let mut planned: Vec<(usize, usize, Vec<bool>)> = Vec::new();
    let mut p = 2 * k + gen::idx(c.lead, k / 2 + 1);
    for (ii, (g, l, carr)) in c.indels.iter().enumerate() {
        let (ln, carr) = if c.twin && ii == 1 { (planned[0].1, planned[0].2.clone()) } else { (1 + gen::idx(*l, 10.min(k - 1)), carr.clone()) };
        planned.push((p, ln, carr));
        p += ln + 4 * k + gen::idx(*g, k + 1);
    }
    let (lp, ll, _) = planned.last().unwrap();
    let len = lp + ll + 2 * k + gen::idx(c.tail, 2 * k);
    let mut seen = std::collections::HashSet::new();
    let mut anc = gen::unique_seq(&c.material, len, k - 1, false, &mut seen).ok_or("no unique extension")?;
    if c.twin && planned.len() >= 2 {
        // same removed sequence at both loci (the repeat-free precondition is re-checked below)
        let (p0, ln, p1) = (planned[0].0, planned[0].1, planned[1].0);
        let seg = anc[p0..p0 + ln].to_vec();
        anc[p1..p1 + ln].copy_from_slice(&seg);
    }
    if let (Some(sel), false) = (c.str_tract, c.twin) {
        let (p0, ln) = (planned[0].0, planned[0].1);
        let t = k - 3 - (sel as usize % 4);
        let unit: Vec<u8> = anc[p0..p0 + ln].to_vec();
        for i in 0..t {
            anc[p0 + ln + i] = unit[i % ln];
        }
        let next = |b: u8| model::BASES[(model::BASES.iter().position(|x| *x == b).unwrap() + 1) % 4];
        // the periodicity ends behind the stretch and does not reach back in front of the indel
        if anc[p0 + ln + t] == unit[t % ln] {
            anc[p0 + ln + t] = next(anc[p0 + ln + t]);
        }
        if anc[p0 - 1] == unit[ln - 1] {
            anc[p0 - 1] = next(anc[p0 - 1]);
        }
    }
    if let (Some((dsel, b1, b2)), true) = (c.paralog, planned.len() >= 2 && !c.twin) {
        let w = k - 1;
        let (p0, l0, p1, l1) = (planned[0].0, planned[0].1, planned[1].0, planned[1].1);
        // distance from the junction: 0 .. k-3 (the farthest base is left alone, see the precondition below)
        let d = gen::idx(dsel as u16 * 257, w - 1);
        let before: Vec<u8> = anc[p0 - w..p0].to_vec();
        let after: Vec<u8> = anc[p0 + l0..p0 + l0 + w].to_vec();
        anc[p1 - w..p1].copy_from_slice(&before);
        anc[p1 + l1..p1 + l1 + w].copy_from_slice(&after);
        // the substitution on either side: a transition (selector 1 or 2: A<->G, C<->T; the commonest kind in real
        // genomes) or the transversion to the complementary base (selector 3)
        let subst = |b: u8, r: u8| match (b, r) {
            (b'A', 1 | 2) => b'G',
            (b'G', 1 | 2) => b'A',
            (b'C', 1 | 2) => b'T',
            (b'T', 1 | 2) => b'C',
            (b'A', _) => b'T',
            (b'T', _) => b'A',
            (b'C', _) => b'G',
            _ => b'C',
        };
        anc[p1 - 1 - d] = subst(anc[p1 - 1 - d], b1);
        anc[p1 + l1 + d] = subst(anc[p1 + l1 + d], b2);
    }
    let mut indels = Vec::new();
    for (ii, (p, ln, carr)) in planned.iter().enumerate() {
        let mut cs: Vec<bool> = (0..c.n_samples).map(|j| carr[j % carr.len()]).collect();
        if cs.iter().all(|x| *x) {
            cs[ii % c.n_samples] = false;
        }
        if cs.iter().all(|x| !*x) {
            cs[(ii + 1) % c.n_samples] = true;
        }
        indels.push((*p, *ln, cs));
    }
    // optional truncation: a cut that lies at least 2k away from every indel, after at least one indel-free 2k prefix
    let trunc: Option<(usize, usize)> = c.trunc.and_then(|(ssel, csel)| {
        let allowed: Vec<usize> = (2 * k..anc.len()).filter(|cut| indels.iter().all(|(p, ln, _)| *cut + 2 * k <= *p || *cut >= *p + *ln + 2 * k)).filter(|cut| indels.iter().any(|(p, _, _)| *cut + 2 * k <= *p)).collect();
        if allowed.is_empty() || c.n_samples < 4 {
            None
        } else {
            Some((gen::idx(ssel, c.n_samples), allowed[gen::idx(csel, allowed.len())]))
        }
    });
    let mut fwd = Vec::new();
    for j in 0..c.n_samples {
        let mut s = anc.clone();
        if let Some((tj, cut)) = trunc {
            if tj == j {
                s.truncate(cut);
            }
        }
        for (p, ln, cs) in indels.iter().rev() {
            if cs[j] && *p + *ln <= s.len() {
                s.drain(*p..*p + *ln);
            }
        }
        fwd.push(s);
    }
    // the other samples must still show both alleles of every indel
    if let Some((tj, cut)) = trunc {
        for (p, _, cs) in &indels {
            if *p >= cut {
                let others: Vec<bool> = (0..c.n_samples).filter(|j| *j != tj).map(|j| cs[j]).collect();
                if others.iter().all(|x| *x) || others.iter().all(|x| !*x) {
                    return Err("truncation leaves a single allele".into());
                }
            }
        }
    }
    // Precondition (repeat-free sequence): over the union of all samples a (k-1)-mer may only recur
    // at the same place, i.e. spanning the same ancestor coordinates — in particular every sample has
    // unique (k-1)-mers on both strands, and a junction created by a deletion in one sample does not
    // coincide with sequence found elsewhere in another sample.
    let w = k - 1;
    let mut items: Vec<(Vec<u8>, Vec<u64>)> = Vec::new();
    for (j, s) in fwd.iter().enumerate() {
        // ancestor coordinate of every base of sample j
        let mut coord: Vec<usize> = (0..anc.len()).collect();
        if let Some((tj, cut)) = trunc {
            if tj == j {
                coord.truncate(cut);
            }
        }
        for (p, ln, cs) in indels.iter().rev() {
            if cs[j] && *p + *ln <= coord.len() {
                coord.drain(*p..*p + *ln);
            }
        }
        if coord.len() != s.len() || s.len() < w {
            return Err("internal: coordinate map".into());
        }
        let origins: Vec<u64> = (0..=(s.len() - w)).map(|i| ((coord[i] as u64) << 32) | coord[i + w - 1] as u64).collect();
        items.push((s.clone(), origins));
    }
    // The same word may recur in another sample if it starts OR ends at the same ancestor coordinate:
    // a deletion whose first base equals the base behind it can be placed one base further right, so a
    // carrier window ending just behind the junction equals the non-carrier window with the same start
    // (and symmetrically on the left). Anything else is a real repeat.
    {
        let mut map: std::collections::HashMap<Vec<u8>, u64> = std::collections::HashMap::new();
        for (seq, origins) in &items {
            for i in 0..=(seq.len() - w) {
                let (key, self_rc) = gen::word_key(&seq[i..i + w], false);
                if self_rc {
                    return Err("a (k-1)-mer is its own reverse complement".into());
                }
                match map.get(&key) {
                    Some(o) => {
                        let (s1, e1, s2, e2) = (o >> 32, o & 0xffff_ffff, origins[i] >> 32, origins[i] & 0xffff_ffff);
                        if s1 != s2 && e1 != e2 {
                            return Err("(k-1)-mers not unique over the union of the derived samples".into());
                        }
                    }
                    None => {
                        map.insert(key, origins[i]);
                    }
                }
            }
        }
    }
    let mut samples: Vec<Sample> = fwd
        .iter()
        .enumerate()
        .map(|(j, s)| (format!("{}{j}", ["m", "c", "x", "a", "t", "g", "p", "e", "z", "k"][j % 10]), vec![if c.orient[j % c.orient.len()] { model::revcomp(s) } else { s.clone() }]))
        .collect();
    let mixed = match (c.mixed, trunc) {
        (Some((js, is)), None) if c.n_samples >= 4 => {
            let (j, i) = (gen::idx(js, c.n_samples), gen::idx(is, indels.len()));
            // the sample's own sequence with indel i in its other form
            let mut other = anc.clone();
            for (ii, (p, ln, cs)) in indels.iter().enumerate().rev() {
                if cs[j] != (ii == i) {
                    other.drain(*p..*p + *ln);
                }
            }
            samples[j].1.push(if (js / 7) % 2 == 0 { other.clone() } else { model::revcomp(&other) });
            Some((j, i, other))
        }
        _ => None,
    };
    Ok(Mat { ancestor: anc, indels, fwd, samples, trunc, mixed })
}

fn contains(hay: &[u8], needle: &[u8]) -> bool {
    !needle.is_empty() && hay.windows(needle.len()).any(|w| w == needle)
}

/// recall per stratum of planted indels: name -> (planted, reported)
pub static STRATA: std::sync::Mutex<std::collections::BTreeMap<&'static str, (u64, u64)>> = std::sync::Mutex::new(std::collections::BTreeMap::new());

/// strata an indel belongs to (each is a sub-population of the property's domain)
fn strata_of(c: &Case, m: &Mat, i: usize) -> Vec<&'static str> {
    let (p, ln, cs) = &m.indels[i];
    let a = &m.ancestor;
    let mut v = vec!["all"];
    if *p > 100_000 && a.len() - p - ln > 100_000 {
        v.push("more_than_100000_shared_bases_on_either_side");
    }
    if c.hairpin.is_some() {
        v.push("self_complementary_indel_between_inverted_flanks");
    }
    if c.twin && m.indels.len() >= 2 && i < 2 {
        v.push("twin(same_sequence_and_carriers_at_two_loci)");
    }
    if let (Some(sel), false, true, 0) = (c.str_tract, c.twin, c.hairpin.is_none(), i) {
        v.push(["repeat_unit_next_to_a_periodic_stretch_of_k-3_bases", "repeat_unit_next_to_a_periodic_stretch_of_k-4_bases", "repeat_unit_next_to_a_periodic_stretch_of_k-5_bases", "repeat_unit_next_to_a_periodic_stretch_of_k-6_bases"][sel as usize % 4]);
    }
    if c.paralog.is_some() && !c.twin && c.hairpin.is_none() && m.indels.len() >= 2 && i < 2 {
        v.push("two_loci_with_near_copies_of_the_same_flanks");
        if matches!(c.paralog, Some((_, 1 | 2, 1 | 2))) {
            v.push("two_loci_with_near_copies_of_the_same_flanks(one_transition_on_either_side)");
        }
    }
    // junction homology: by how many bases the deletion can be shifted without changing the result
    let mut right = 0;
    while p + ln + right < a.len() && a[p + right] == a[p + ln + right] {
        right += 1;
    }
    let mut left = 0;
    while left < *p && a[p - 1 - left] == a[p + ln - 1 - left] {
        left += 1;
    }
    if left + right >= *ln {
        v.push("junction_homology>=indel_length(homopolymer_or_tandem_unit)");
    } else if left + right == 0 {
        v.push("no_junction_homology");
    }
    let carriers = cs.iter().filter(|x| **x).count();
    if 2 * carriers == cs.len() {
        v.push("carried_by_exactly_half_of_the_samples");
    }
    if carriers == 1 || carriers + 1 == cs.len() {
        v.push("singleton_carrier_or_singleton_non_carrier");
    }
    v.push(match *ln { 1 => "length_1", 2..=4 => "length_2-4", _ => "length_5-10" });
    v
}

pub static PLANTED: AtomicU64 = AtomicU64::new(0);
pub static FOUND: AtomicU64 = AtomicU64::new(0);

fn check(c: &Case, ctx: &Ctx) -> Outcome {
    let m = match materialise(c) {
        Ok(m) => m,
        Err(e) => {
            if std::env::var("VERIF_DEBUG").is_ok() {
                eprintln!("REJECT k={} n={} indels={} trunc={:?}: {e}", c.k, c.n_samples, c.indels.len(), c.trunc.is_some());
            }
            return Outcome::Reject(e);
        }
    };
    check_mat(c, m, ctx)
}

// ---- one indel between flanks of more than 100 000 bases that all samples share ----

#[derive(Clone, Debug, Serialize, Deserialize)]
pub struct LongFlankCase {
    pub seed: u64,
    pub left: u32,
    pub right: u32,
    pub ins_len: u8,
    pub n_samples: usize,
    pub carriers: Vec<bool>,
    pub threads: u8,
}

fn long_flank_strategy() -> BoxedStrategy<LongFlankCase> {
    (any::<u64>(), prop_oneof![3 => 100_050u32..112_000, 1 => 2_000u32..100_000], prop_oneof![3 => 100_050u32..112_000, 1 => 2_000u32..100_000], 1u8..=10, 3usize..=5, proptest::collection::vec(any::<bool>(), 3..6), prop::sample::select(vec![1u8, 2, 3, 4]))
        .prop_map(|(seed, left, right, ins_len, n_samples, carriers, threads)| LongFlankCase { seed, left, right, ins_len, n_samples, carriers, threads })
        .boxed()
}

fn check_long_flanks(lc: &LongFlankCase, ctx: &Ctx) -> Outcome {
    let k = 31usize;
    let mut x = lc.seed | 1;
    let mut rnd = |n: usize| -> Vec<u8> { (0..n).map(|_| { x = crate::engine::splitmix64(x); model::BASES[(x >> 36) as usize & 3] }).collect() };
    let (l, ins, r) = (rnd(lc.left as usize), rnd(lc.ins_len as usize), rnd(lc.right as usize));
    let anc: Vec<u8> = [l.clone(), ins.clone(), r.clone()].concat();
    // precondition: (k-1)-mers unique on both strands (random sequence of this length at k = 31: practically always)
    {
        let mut set = std::collections::HashSet::with_capacity(anc.len());
        for i in 0..=(anc.len() - (k - 1)) {
            let (key, self_rc) = gen::word_key(&anc[i..i + k - 1], false);
            if self_rc || !set.insert(key) {
                return Outcome::Reject("a (k-1)-mer recurs in a random sequence of this length".into());
            }
        }
    }
    let mut cs: Vec<bool> = (0..lc.n_samples).map(|j| lc.carriers[j % lc.carriers.len()]).collect();
    if cs.iter().all(|b| *b) { cs[0] = false; }
    if cs.iter().all(|b| !*b) { cs[1] = true; }
    let p = l.len();
    let fwd: Vec<Vec<u8>> = cs.iter().map(|del| if *del { [l.clone(), r.clone()].concat() } else { anc.clone() }).collect();
    let samples: Vec<Sample> = fwd.iter().enumerate().map(|(j, sq)| (format!("g{j}"), vec![if (lc.seed >> j) & 1 == 1 { model::revcomp(sq) } else { sq.clone() }])).collect();
    let m = Mat { ancestor: anc, indels: vec![(p, ins.len(), cs)], fwd, samples, trunc: None, mixed: None };
    let c = Case { k, n_samples: lc.n_samples, material: vec![], lead: lc.left as u16, tail: 0, indels: vec![], orient: vec![false], threads: lc.threads, trunc: None, twin: false, hairpin: None, paralog: None, mixed: None, str_tract: None };
    match check_mat(&c, m, ctx) {
        Outcome::Fail(msg) => Outcome::Fail(format!("flanks of {} and {} bases shared by all samples, indel of {} bases: {}", lc.left, lc.right, lc.ins_len, crate::engine::truncate(&msg, 700))),
        o => o,
    }
}

fn check_mat(c: &Case, m: Mat, ctx: &Ctx) -> Outcome {
    let k = c.k;
    let dir = ctx.case_dir();
    let r: Result<(Vec<usize>, usize), Outcome> = (|| {
        must_ok(&build(ctx, &dir, "x", &m.samples, k, true, 1), "ska build")?;
        let ts = c.threads.to_string();
        let mut args = vec!["lo", "x.skf", "out", "--threads", &ts];
        if m.trunc.is_some() || m.mixed.is_some() {
            // one of >= 4 samples is missing at the indels behind the cut
            args.extend_from_slice(&["-m", "0.4"]);
        }
        // every other run writes over the (longer) outputs of an earlier run with the same prefix
        if (c.lead as usize + c.n_samples) % 2 == 0 {
            for sfx in ["_indels.vcf", "_snps.fas", "_snps.vcf", "_pseudo_genomes.fas"] {
                crate::cli::plant_stale_output(&dir.join(format!("out{sfx}")));
            }
        }
        let o = run_ska(ctx, &dir, &args);
        must_ok(&o, "ska lo on isolated indels")?;
        let txt = std::fs::read_to_string(dir.join("out_indels.vcf")).map_err(|e| Outcome::Fail(format!("out_indels.vcf: {e}")))?;
        let mut matched: Vec<usize> = Vec::new();
        let mut n_rec = 0;
        let exp_names: Vec<&str> = m.samples.iter().map(|s| s.0.as_str()).collect();
        for l in txt.lines() {
            if l.starts_with("#CHROM") {
                let cols: Vec<&str> = l.split('\t').skip(9).collect();
                if cols != exp_names {
                    return Err(Outcome::Fail(format!("sample columns of the indel VCF {:?}, samples in input order {:?}", cols, exp_names)));
                }
            }
            if l.starts_with('#') || l.is_empty() {
                continue;
            }
            n_rec += 1;
            let f: Vec<&str> = l.split('\t').collect();
            if f.len() != 9 + c.n_samples {
                return Err(Outcome::Fail(format!("record with {} columns for {} samples: {l}", f.len(), c.n_samples)));
            }
            let (refa, alta) = (f[3].replace('-', ""), f[4].replace('-', ""));
            let info = f.iter().find(|x| x.starts_with("before=")).ok_or_else(|| Outcome::Fail(format!("no before=/after= field in {l}")))?;
            let mut before = "";
            let mut after = "";
            for kv in info.split(';') {
                if let Some(v) = kv.strip_prefix("before=") {
                    before = v;
                }
                if let Some(v) = kv.strip_prefix("after=") {
                    after = v;
                }
            }
            let s0 = format!("{before}{refa}{after}").into_bytes();
            let s1 = format!("{before}{alta}{after}").into_bytes();
            let (r0, r1) = (model::revcomp(&s0), model::revcomp(&s1));
            let gts = &f[9..];
            for (j, gt) in gts.iter().enumerate() {
                let second: &[u8] = match &m.mixed { Some((mj, _, o)) if *mj == j => o, _ => &[] };
                let has0 = contains(&m.fwd[j], &s0) || contains(&m.fwd[j], &r0) || contains(second, &s0) || contains(second, &r0);
                let has1 = contains(&m.fwd[j], &s1) || contains(&m.fwd[j], &r1) || contains(second, &s1) || contains(second, &r1);
                let ok = match *gt {
                    "0" => has0 && !has1,
                    "1" => has1 && !has0,
                    "." => has0 == has1,
                    "0/1" => has0 && has1,
                    _ => false,
                };
                if !ok {
                    return Err(Outcome::Fail(format!("record REF={} ALT={} before={before} after={after}: sample {j} genotyped {gt} but carries REF-form={has0} ALT-form={has1}", f[3], f[4])));
                }
            }
            // correspondence with a planted indel: length and carriers
            let long_is_ref = refa.len() > alta.len();
            let dl = refa.len().abs_diff(alta.len());
            let long_gt = if long_is_ref { "0" } else { "1" };
            let (s_long, s_short) = if long_is_ref { (&s0, &s1) } else { (&s1, &s0) };
            // candidates: same length and carriers, long form in the ancestor, short form in the
            // ancestor with exactly that indel removed (robust to shifting inside repeats)
            let cands: Vec<usize> = (0..m.indels.len())
                .filter(|i| {
                    let (p, ln, cs) = &m.indels[*i];
                    // a truncated sample lacks the indels behind its cut: its genotype there must be '.'
                    let missing = |j: usize| matches!(m.trunc, Some((tj, cut)) if tj == j && *p >= cut);
                    // (the record's REF/ALT length difference need not equal the planted length: inside a short
                    // tandem repeat ska lo may anchor the shorter flank at another repeat unit; the two literal
                    // forms below still pin the record to this indel)
                    let _ = (dl, ln);
                    let both = |j: usize| matches!(&m.mixed, Some((mj, mi, _)) if *mj == j && *mi == *i);
                    if !(0..c.n_samples).all(|j| if both(j) { gts[j] == "0/1" || gts[j] == "." } else if missing(j) { gts[j] == "." } else { (gts[j] == long_gt) == !cs[j] && gts[j] != "." }) {
                        return false;
                    }
                    let mut del = m.ancestor.clone();
                    del.drain(*p..*p + *ln);
                    (contains(&m.ancestor, s_long) || contains(&m.ancestor, &model::revcomp(s_long))) && (contains(&del, s_short) || contains(&del, &model::revcomp(s_short)))
                })
                .collect();
            if cands.is_empty() {
                return Err(Outcome::Fail(format!("record REF={} ALT={} before={before} after={after} gts={:?} corresponds to no planted indel {:?}", f[3], f[4], gts, m.indels)));
            }
            match cands.iter().find(|h| !matched.contains(h)) {
                None => return Err(Outcome::Fail(format!("planted indel #{} reported twice (REF={} ALT={} before={before} after={after})", cands[0], f[3], f[4]))),
                Some(h) => matched.push(*h),
            }
        }
        let _ = n_rec;
        Ok((matched, m.indels.len()))
    })();
    ctx.done(&dir);
    match r {
        Err(Outcome::Fail(msg)) => Outcome::Fail(format!("k={k} threads={} ancestor={} indels={:?}: {msg}", c.threads, if m.ancestor.len() > 5000 { format!("({} bases)", m.ancestor.len()) } else { lossy(&m.ancestor) }, m.indels)),
        Err(o) => o,
        Ok((matched, planted)) => {
            let found = matched.len();
            if !ctx.replay {
                // (an indel at which one sample holds both forms is outside the completeness clause: not counted)
                let skip = |i: &usize| matches!(&m.mixed, Some((_, mi, _)) if mi == i);
                PLANTED.fetch_add((0..planted).filter(|i| !skip(i)).count() as u64, Ordering::Relaxed);
                FOUND.fetch_add(matched.iter().filter(|i| !skip(i)).count() as u64, Ordering::Relaxed);
                let mut st = STRATA.lock().unwrap();
                for i in (0..planted).filter(|i| !matches!(&m.mixed, Some((_, mi, _)) if mi == i)) {
                    for name in strata_of(c, &m, i) {
                        let e = st.entry(name).or_insert((0, 0));
                        e.0 += 1;
                        if matched.contains(&i) {
                            e.1 += 1;
                        }
                    }
                }
            }
            let mut cl = vec![];
            if found == planted { cl.push("all_found"); } else { cl.push("some_missed"); }
            if planted >= 2 { cl.push(">=2_indels"); }
            if c.threads > 1 { cl.push("threads>1"); }
            if m.trunc.is_some() { cl.push("sample_missing_at_an_indel"); }
            if let Some((_, mi, _)) = &m.mixed { cl.push("sample_with_both_forms_of_an_indel"); if matched.contains(mi) { cl.push("sample_with_both_forms:that_indel_reported"); } }
            if c.twin && planted >= 2 && c.hairpin.is_none() { cl.push("twin_indels(same_sequence_same_carriers_two_loci)"); }
            if c.hairpin.is_some() { cl.push("self_complementary_indel_between_inverted_flanks"); }
            if c.paralog.is_some() && !c.twin && c.hairpin.is_none() && planted >= 2 { cl.push("two_loci_with_near_copies_of_the_same_flanks"); }
            pass(found > 0, key_of(&(k, &m.fwd, c.threads)), cl)
        }
    }
}

fn post(rt: &mut Runtime) {
    let (p, f) = (PLANTED.load(Ordering::Relaxed), FOUND.load(Ordering::Relaxed));
    if let Some(s) = rt.stages.last_mut() {
        s.extra.insert("planted_indels".into(), json!(p));
        s.extra.insert("reported_indels".into(), json!(f));
        let st = STRATA.lock().unwrap();
        s.extra.insert("recall_by_stratum".into(), json!(st.iter().map(|(k, (p, f))| (k.to_string(), json!({"planted": p, "reported": f}))).collect::<serde_json::Map<String, serde_json::Value>>()));
    }
    if std::env::var("VERIF_DEBUG").is_ok() {
        for (k, (p, f)) in STRATA.lock().unwrap().iter() {
            eprintln!("STRATUM {k}: {f}/{p} = {:.3}", *f as f64 / (*p).max(1) as f64);
        }
    }
    // the 90 % bound holds for every population of inputs in the property's domain, so it is also
    // applied to each stratum of the generated population (>= 150 planted indels; observed recall on
    // the unchanged tree is >= 98.8 % in every stratum)
    for (name, (sp, sf)) in STRATA.lock().unwrap().iter() {
        // small strata: reported only when a recall of 90 % or more is excluded beyond doubt
        // (P[Bin(n, 0.9) <= found] < 1e-5; on the unchanged tree a stratum loses under 2 % of its indels)
        let tail: f64 = {
            let (n, f) = (*sp as usize, *sf as usize);
            let mut t = 0.0;
            let mut binom = 1.0f64;
            for i in 0..=f.min(n) {
                if i > 0 { binom = binom * (n - i + 1) as f64 / i as f64; }
                t += binom * 0.9f64.powi(i as i32) * 0.1f64.powi((n - i) as i32);
            }
            t
        };
        if *name != "all" && *sp >= 5 && *sp < 150 && (*sf as f64) < 0.90 * *sp as f64 && tail < 1e-5 {
            rt.violations.push(crate::engine::Violation {
                stage: "aggregate".into(),
                case: json!({"stratum": name, "planted": sp, "found": sf}),
                message: format!("stratum {name}: only {sf} of {sp} planted isolated indels were reported (a recall of 90 % has probability {tail:.1e} of giving so few)"),
                worker: 0,
            });
        }
        if *name != "all" && *sp >= 150 && (*sf as f64) < 0.90 * *sp as f64 {
            rt.violations.push(crate::engine::Violation {
                stage: "aggregate".into(),
                case: json!({"stratum": name, "planted": sp, "found": sf}),
                message: format!("stratum {name}: only {sf} of {sp} planted isolated indels were reported (< 90%)"),
                worker: 0,
            });
        }
    }
    if p >= 200 && (f as f64) < 0.90 * p as f64 {
        rt.violations.push(crate::engine::Violation {
            stage: "aggregate".into(),
            case: json!({"planted": p, "found": f}),
            message: format!("only {f} of {p} planted isolated indels were reported (< 90%)"),
            worker: 0,
        });
    }
}

const RULE: &str = "generated: ancestor (all insertions present) with unique (k-1)-mers on both strands, 1-3 indels of length 1..min(10,k-1) at least 4k apart and 2k from the ends, carrier sets non-empty and proper over 3-8 samples, in 30% of the multi-indel cases the second indel removes the same sequence from the same carriers as the first (two loci, two records expected), in a seventh of the cases a single indel of a sequence equal to its own reverse complement (AT, GATC, GAATTC, ...) between inverted flanks W..rc(W) with |W| >= k-1 (every (k-1)-mer still occurs once in each sequence as written; the two strands of that locus read alike), in half of the multi-indel cases without twins the k-1 bases before and behind the second indel are those of the first with one substitution each (a transition, or the transversion to the complementary base) at the same distance from the junction (a diverged duplicate of the locus), the union of all derived samples re-checked: a (k-1)-mer may recur only at the same ancestor coordinates (rejections counted), samples randomly reverse-complemented, k in {11,15,21,31}, threads 1-4; in a third of the cases one of >= 4 samples is truncated >= 2k before an indel (neither form present: must be genotyped '.', run with -m 0.4); in a seventh of the cases the first indel is one unit of a tandem repeat that continues behind it over k-3, k-4, k-5 or k-6 bases (a stratum each); in an eighth of the cases one of >= 4 samples holds a second record with one indel in its other form (both alleles present: 0/1 or '.', never a plain 0 or 1; run with -m 0.4; that indel is not counted for recall). Oracle per record: before+REF+after (or its reverse complement) occurs in exactly the samples genotyped 0, before+ALT+after in exactly those genotyped 1, '.' iff neither or both; the record matches one planted indel by length and carriers, none twice, none unmatched; aggregate recall >= 90% (checked when >= 200 planted), also within each stratum of >= 150 planted indels, and in smaller strata when fewer are reported than a recall of 90 % can explain (probability < 1e-5) (twin pairs, self-complementary indels between inverted flanks, loci with near-copies of the same flanks and among them those with a transition on either side, junction homology >= indel length, no junction homology, carried by exactly half of the samples, singleton carrier, length classes). Non-trivial: >= 1 indel reported.";

fn stages(tier: Tier) -> Vec<Box<dyn Stage>> {
    vec![
        gen_stage_show("long_shared_flanks", "generated: k = 31, 3-5 genomes that share more than 100000 random bases on either side of one indel of 1-10 bases (a quarter of the flanks shorter: 2000-100000), carriers generated, orientation per sample, threads 1-4. Oracle as in the main stage (one record, right genotypes; counted for recall in the strata 'all' and its length class). Non-trivial: the indel is reported.", tier.pick(14, 80), 3, long_flank_strategy, check_long_flanks, |c| json!({"seed": c.seed, "left": c.left, "right": c.right, "indel_length": c.ins_len, "samples": c.n_samples, "threads": c.threads})),
        gen_stage_show("indels", RULE, tier.pick(2400, 24_000), 150, case_strategy, check, |c| match materialise(c) {
            Ok(m) => json!({"k": c.k, "ancestor": lossy(&m.ancestor), "indels": m.indels.iter().map(|(p, l, cs)| json!({"pos": p, "len": l, "deleted_in": cs})).collect::<Vec<_>>()}),
            Err(e) => json!({"rejected": e}),
        }),
    ]
}

pub fn def() -> PropDef {
    PropDef {
        id: "C18",
        level: "exploration",
        assumptions: &[
            "isolation preconditions by construction: unique (k-1)-mers in every sample, indels shorter than k, >= 4k apart, >= 2k from the ends",
            "recall is an aggregate over the run, not per case",
        ],
        stages,
        post: Some(post),
    }
}
