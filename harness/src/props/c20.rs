//! C20 — cov tabulates exact k-mer multiplicities and labels the cutoff it defines.

use std::collections::HashMap;

use proptest::prelude::*;
use serde::{Deserialize, Serialize};
use serde_json::json;

use super::common::*;
use super::PropDef;
use crate::cli::{self, run_ska};
use crate::engine::{gen_stage_show, key_of, pass, splitmix64, Ctx, Outcome, Stage, Tier};
use crate::gen;
use crate::model;
use ska::coverage::verif_hooks as hooks;
use ska::coverage::CoverageHistogram;

// ------------------------------------------------------------------ harness-side mathematics

fn ln_fact(i: usize) -> f64 {
    (2..=i).map(|j| (j as f64).ln()).sum()
}

fn ln_pois(i: usize, lambda: f64) -> f64 {
    i as f64 * lambda.ln() - lambda - ln_fact(i)
}

/// (ln of error component, ln of coverage component) at count i
fn comps(w0: f64, c: f64, i: usize) -> (f64, f64) {
    (w0.ln() + ln_pois(i, 1.0), (1.0 - w0).ln() + ln_pois(i, c))
}

fn ln_mix(w0: f64, c: f64, i: usize) -> f64 {
    let (a, b) = comps(w0, c, i);
    let m = a.max(b);
    m + ((a - m).exp() + (b - m).exp()).ln()
}

fn h_ll(w0: f64, c: f64, counts: &[f64]) -> f64 {
    counts.iter().enumerate().map(|(i, n)| n * ln_mix(w0, c, i + 1)).sum()
}

/// analytic gradient and the sum of absolute contributions (scale for tolerances)
fn h_grad(w0: f64, c: f64, counts: &[f64]) -> ([f64; 2], [f64; 2]) {
    let (mut g, mut s) = ([0.0; 2], [0.0; 2]);
    for (i, n) in counts.iter().enumerate() {
        let i1 = i + 1;
        let (a, b) = comps(w0, c, i1);
        let m = a.max(b);
        let (ea, eb) = ((a - m).exp(), (b - m).exp());
        let (ra, rb) = (ea / (ea + eb), eb / (ea + eb)); // responsibilities
        let t0 = n * (ra / w0 - rb / (1.0 - w0));
        let t1 = n * rb * (i1 as f64 / c - 1.0);
        g[0] += t0;
        g[1] += t1;
        // magnitudes before cancellation (the two responsibilities cancel when c is near 1)
        s[0] += n * (ra / w0 + rb / (1.0 - w0));
        s[1] += n * rb * (i1 as f64 / c + 1.0);
    }
    (g, s)
}

/// smallest count >= 1 at which the coverage component outweighs the error component,
/// capped at `max`; second value: an alternative answer if a comparison was a tie (< 1e-9)
fn h_cutoff(w0: f64, c: f64, max: usize) -> (usize, Option<usize>) {
    let mut cutoff = 1;
    let mut alt = None;
    while cutoff < max {
        let (a, b) = comps(w0, c, cutoff);
        if (a - b).abs() < 1e-9 && alt.is_none() {
            alt = Some(cutoff);
        }
        if a - b < 0.0 {
            break;
        }
        cutoff += 1;
    }
    (cutoff, alt)
}

fn rel_close(x: f64, y: f64, rel: f64, abs: f64) -> bool {
    (x - y).abs() <= rel * x.abs().max(y.abs()) + abs
}

// ------------------------------------------------------------------ stage 1: parameter points

#[derive(Clone, Debug, Serialize, Deserialize)]
pub struct PointCase {
    pub w0: f64,
    pub c: f64,
    pub counts: Vec<u32>,
}

fn point_strategy() -> BoxedStrategy<PointCase> {
    (
        0.01f64..0.99,
        prop_oneof![3 => 1.0f64..60.0, 1 => 1.0f64..200.0, 1 => Just(1.0f64)],
        prop_oneof![
            3 => proptest::collection::vec(prop_oneof![2 => 0u32..50, 2 => 0u32..5000, 1 => 0u32..1_000_000], 5..80),
            1 => proptest::collection::vec(0u32..20_000, 80..300),
        ],
    )
        .prop_map(|(w0, c, counts)| PointCase { w0, c, counts })
        .boxed()
}

fn check_point(p: &PointCase, _ctx: &Ctx) -> Outcome {
    let counts: Vec<f64> = p.counts.iter().map(|x| *x as f64).collect();
    let pars = [p.w0, p.c];
    let ll = hooks::log_likelihood(&pars, &counts);
    let want = h_ll(p.w0, p.c, &counts);
    if !rel_close(ll, want, 1e-10, 1e-9) {
        return Outcome::Fail(format!("log_likelihood(w0={}, c={}) = {ll:e}, two-Poisson mixture log-likelihood is {want:e}; counts={:?}", p.w0, p.c, p.counts));
    }
    let g = hooks::grad_ll(&pars, &counts);
    let (hg, scale) = h_grad(p.w0, p.c, &counts);
    for d in 0..2 {
        if !rel_close(g[d], hg[d], 1e-8, 1e-8 * scale[d] + 1e-12) {
            return Outcome::Fail(format!("grad_ll(w0={}, c={})[{d}] = {:e}, analytic gradient of the stated mixture is {:e}; counts={:?}", p.w0, p.c, g[d], hg[d], p.counts));
        }
    }
    // central finite difference of the *hooked* likelihood
    let h0 = 1e-6f64.min(p.w0 / 4.0).min((1.0 - p.w0) / 4.0);
    let fd0 = (hooks::log_likelihood(&[p.w0 + h0, p.c], &counts) - hooks::log_likelihood(&[p.w0 - h0, p.c], &counts)) / (2.0 * h0);
    let h1 = 1e-5 * p.c;
    let fd1 = if p.c - h1 >= 1.0 {
        (hooks::log_likelihood(&[p.w0, p.c + h1], &counts) - hooks::log_likelihood(&[p.w0, p.c - h1], &counts)) / (2.0 * h1)
    } else {
        // at the lower bound use a one-sided second-order formula
        let f0 = hooks::log_likelihood(&[p.w0, p.c], &counts);
        let f1 = hooks::log_likelihood(&[p.w0, p.c + h1], &counts);
        let f2 = hooks::log_likelihood(&[p.w0, p.c + 2.0 * h1], &counts);
        (-3.0 * f0 + 4.0 * f1 - f2) / (2.0 * h1)
    };
    let llmag = counts.iter().enumerate().map(|(i, n)| n * ln_mix(p.w0, p.c, i + 1).abs()).sum::<f64>();
    for (d, fd, h) in [(0usize, fd0, h0), (1usize, fd1, h1)] {
        let tol = 1e-5 * scale[d] + 64.0 * f64::EPSILON * llmag / h + 1e-9;
        if (fd - g[d]).abs() > tol {
            return Outcome::Fail(format!("grad_ll(w0={}, c={})[{d}] = {:e} but the finite difference of log_likelihood is {:e} (tolerance {:e}); counts={:?}", p.w0, p.c, g[d], fd, tol, p.counts));
        }
    }
    let max = p.counts.len();
    let cut = hooks::find_cutoff(&pars, max);
    let (hc, alt) = h_cutoff(p.w0, p.c, max);
    if cut != hc && Some(cut) != alt && !(alt.is_some() && cut == alt.unwrap() + 1) {
        return Outcome::Fail(format!("find_cutoff(w0={}, c={}, max={max}) = {cut}, smallest count where the coverage component outweighs the error component is {hc}", p.w0, p.c));
    }
    let mut cl = vec![];
    if hc == max { cl.push("cutoff_capped"); } else if hc == 1 { cl.push("cutoff_1"); } else { cl.push("cutoff_interior"); }
    if p.c == 1.0 { cl.push("c_at_lower_bound"); }
    pass(true, key_of(&(p.w0.to_bits(), p.c.to_bits(), &p.counts)), cl)
}

// ------------------------------------------------------------------ stage 2: read pairs

#[derive(Clone, Debug, Serialize, Deserialize)]
pub struct ReadCase {
    pub k: usize,
    pub rc: bool,
    pub genome: Vec<u8>,
    pub coverage: u8,
    pub read_len: u8,
    /// errors per 1000 bases
    pub err_pm: u8,
    pub read_seed: u64,
    /// a multi-copy element: (copies 0..=8, element length selector); multiplicities then exceed 255
    #[serde(default)]
    pub repeat: (u8, u16),
}

fn reads_strategy() -> BoxedStrategy<ReadCase> {
    (
        prop_oneof![2 => prop::sample::select(vec![5usize, 9, 15, 21, 31, 33, 41, 63]), 1 => gen::k_strategy()],
        prop::bool::weighted(0.7),
        proptest::collection::vec(0u8..4, 2000..6000),
        10u8..=80,
        80u8..=150,
        0u8..=30,
        any::<u64>(),
        prop_oneof![7 => Just((0u8, 0u16)), 1 => (6u8..=8, any::<u16>())],
    )
        .prop_map(|(k, rc, genome, coverage, read_len, err_pm, read_seed, repeat)| ReadCase { k, rc, genome, coverage, read_len, err_pm, read_seed, repeat })
        .boxed()
}

struct Rng(u64);
impl Rng {
    fn next(&mut self) -> u64 {
        self.0 = self.0.wrapping_add(0x9E37_79B9_7F4A_7C15);
        splitmix64(self.0)
    }
    fn below(&mut self, n: u64) -> u64 {
        self.next() % n.max(1)
    }
}

/// deterministic read simulation: a pure function of the case (placement from `read_seed`)
fn simulate(c: &ReadCase) -> (Vec<(Vec<u8>, Vec<u8>)>, Vec<(Vec<u8>, Vec<u8>)>) {
    let mut g = gen::bases_to_seq(&c.genome);
    if c.repeat.0 > 0 {
        // copies of one element of 4000-6000 bases spread over the genome: with coverage >= 50 at least 50
        // split k-mers share multiplicities above 255
        let el_len = 4000 + gen::idx(c.repeat.1, 2000);
        let mut st = c.read_seed ^ 0xE1E;
        let el: Vec<u8> = (0..el_len)
            .map(|_| {
                st = st.wrapping_add(0x9E37_79B9_7F4A_7C15);
                model::BASES[(splitmix64(st) & 3) as usize]
            })
            .collect();
        g.extend_from_slice(&el);
        for i in 1..c.repeat.0 as usize {
            let at = (i * g.len() / c.repeat.0 as usize).min(g.len());
            let tail = g.split_off(at);
            g.extend_from_slice(&el);
            g.extend(tail);
        }
    }
    let rl = (c.read_len as usize).min(g.len());
    let coverage = if c.repeat.0 > 0 { c.coverage.max(50) } else { c.coverage };
    let n_reads = g.len() * coverage as usize / rl;
    let mut rng = Rng(c.read_seed);
    let (mut f1, mut f2) = (Vec::new(), Vec::new());
    for i in 0..n_reads {
        let st = rng.below((g.len() - rl + 1) as u64) as usize;
        let mut s = g[st..st + rl].to_vec();
        for b in s.iter_mut() {
            let r = rng.below(2000);
            if r < 2 * c.err_pm as u64 {
                *b = model::BASES[rng.below(4) as usize];
            } else if r == 1999 {
                *b = b'N';
            }
        }
        if rng.below(2) == 1 {
            s = model::revcomp(&s);
        }
        // ska cov ignores base qualities: any quality string must give the same counts
        let q: Vec<u8> = if c.err_pm % 2 == 0 { vec![b'I'; s.len()] } else { (0..s.len()).map(|_| b"!\"#$%5?I"[rng.below(8) as usize]).collect() };
        if i % 2 == 0 {
            f1.push((s, q));
        } else {
            f2.push((s, q));
        }
    }
    // the two files need not hold equally many reads (trimming drops reads from one file only)
    match c.read_seed % 5 {
        0 => { let n = f1.len() / 3; let moved: Vec<_> = f1.drain(f1.len() - n..).collect(); f2.extend(moved); }
        1 => { let n = f2.len() / 3; let moved: Vec<_> = f2.drain(f2.len() - n..).collect(); f1.extend(moved); }
        _ => {}
    }
    // a fifth of the read sets hold 60 reads trimmed to exactly k bases (one split k-mer each)
    if c.read_seed % 5 == 2 {
        let src: Vec<Vec<u8>> = f1.iter().filter(|r| r.0.len() > c.k + 3).take(60).map(|r| r.0.clone()).collect();
        for (i, s) in src.iter().enumerate() {
            let st = (i * 7) % (s.len() - c.k + 1);
            let read = (s[st..st + c.k].to_vec(), vec![b'I'; c.k]);
            if i % 2 == 0 { f1.push(read) } else { f2.push(read) }
        }
    }
    // In an eighth of the read sets (k <= 41) one 100-base read is present 500 times in either file: its k-mers
    // occur exactly 1000 times, the last multiplicity the table can show
    if c.read_seed % 8 == 6 && c.k <= 41 {
        let mut x = c.read_seed | 1;
        let r: Vec<u8> = (0..100).map(|_| { x = crate::engine::splitmix64(x); model::BASES[(x >> 31) as usize & 3] }).collect();
        for i in 0..1000 {
            let read = (if i % 3 == 0 && c.rc { model::revcomp(&r) } else { r.clone() }, vec![b'I'; 100]);
            if i % 2 == 0 { f1.push(read) } else { f2.push(read) }
        }
    }
    // In an eighth of the read sets (k <= 41) one split k-mer occurs more than 65536 times: poly-G reads, as
    // real runs contain them. It lies far above the tabulated range and must not show up in any row.
    if c.read_seed % 8 == 5 && c.k <= 41 {
        // 65536 + t occurrences, t = 3..22: a counter that wraps at 2^16 would land inside the table
        let per_read = 150 - c.k + 1;
        let total = 65_536 + 3 + (c.read_seed / 8 % 20) as usize;
        let (n, rem) = (total / per_read, total % per_read);
        for i in 0..n {
            let r = (vec![b'G'; 150], vec![b'I'; 150]);
            if i % 2 == 0 { f1.push(r) } else { f2.push(r) }
        }
        if rem > 0 {
            f2.push((vec![b'G'; c.k - 1 + rem], vec![b'I'; c.k - 1 + rem]));
        }
    }
    // in a third of the read sets a file starts with a read that holds no split k-mer at all (a failed
    // cluster of N's, or a read trimmed below k): it contributes nothing and must not matter
    match c.read_seed % 6 {
        0 => f1.insert(0, (vec![b'N'; 100], vec![b'#'; 100])),
        1 => f2.insert(0, (b"ACGT".to_vec(), vec![b'I'; 4])),
        _ => {}
    }
    // a read trimmed to nothing (adapter dimers leave zero-length records unless the trimmer enforces a minimum
    // length) in the middle of a file: it holds no k-mer, and everything behind it still counts
    match c.read_seed % 7 {
        3 if f1.len() >= 3 => f1.insert(f1.len() / 3, (Vec::new(), Vec::new())),
        4 if f2.len() >= 3 => f2.insert(f2.len() / 2, (Vec::new(), Vec::new())),
        _ => {}
    }
    (f1, f2)
}

fn model_hist(c: &ReadCase, files: [&Vec<(Vec<u8>, Vec<u8>)>; 2]) -> Vec<u32> {
    let mut d: HashMap<Vec<u8>, u32> = HashMap::new();
    for f in files {
        for (s, _) in f {
            for (_, w) in model::windows(s, c.k) {
                *d.entry(model::canon(&w, c.rc).arms).or_insert(0) += 1;
            }
        }
    }
    let mut hist = vec![0u32; 1000];
    for n in d.values() {
        if (*n as usize) <= 1000 {
            hist[*n as usize - 1] += 1;
        }
    }
    // up to the last multiplicity shared by at least 50 k-mers
    let last = hist.iter().rposition(|x| *x >= 50);
    match last {
        Some(l) => hist[..=l].to_vec(),
        None => vec![],
    }
}

fn fit_inproc<IntT>(c: &ReadCase, f1: &String, f2: &String) -> Result<Result<(f64, f64, usize, Vec<u32>, usize), String>, String>
where
    IntT: for<'a> ska::ska_dict::bit_encoding::UInt<'a>,
{
    let r = std::panic::catch_unwind(std::panic::AssertUnwindSafe(|| {
        let mut cov = CoverageHistogram::<IntT>::new(f1, f2, c.k, c.rc, false);
        match cov.fit_histogram() {
            Ok(cut) => {
                let (w0, cc, cutoff, counts) = hooks::fit_state(&cov);
                Ok((w0, cc, cutoff, counts, cut))
            }
            Err(e) => Err(e.to_string()),
        }
    }));
    r.map_err(|e| panic_msg(&e))
}

fn check_reads(c: &ReadCase, ctx: &Ctx) -> Outcome {
    let (f1, f2) = simulate(c);
    if f1.is_empty() || f2.is_empty() {
        return Outcome::Reject("too few reads".into());
    }
    let hist = model_hist(c, [&f1, &f2]);
    let dir = ctx.case_dir();
    let (p1, p2) = (dir.join("r_1.fastq"), dir.join("r_2.fastq"));
    cli::write_fastq(&p1, &f1);
    cli::write_fastq(&p2, &f2);
    let (s1, s2) = (cli::p(&p1), cli::p(&p2));
    let r: Result<(bool, usize), Outcome> = (|| {
        let fit = if c.k <= 31 { fit_inproc::<u64>(c, &s1, &s2) } else { fit_inproc::<u128>(c, &s1, &s2) };
        let fit = fit.map_err(|m| Outcome::Fail(format!("coverage counting/fit panicked: {m}")))?;
        let ks = c.k.to_string();
        // a third of the cases: gzip-compressed read files for the command line run
        let gz = (c.k + c.coverage as usize) % 3 == 0;
        if gz {
            cli::gzip(&p1, &dir.join("r_1.fastq.gz"));
            cli::gzip(&p2, &dir.join("r_2.fastq.gz"));
        }
        let mut args = if gz { vec!["cov", "r_1.fastq.gz", "r_2.fastq.gz", "-k", &ks] } else { vec!["cov", "r_1.fastq", "r_2.fastq", "-k", &ks] };
        if !c.rc {
            args.push("--single-strand");
        }
        let o = run_ska(ctx, &dir, &args);
        if let Some(e) = o.infra() {
            return Err(Outcome::Infra(e));
        }
        let (w0, cc, cutoff, counts, ret) = match fit {
            Err(e) => {
                // documented refusal: optimiser did not converge -> the CLI must fail too
                if o.ok() {
                    return Err(Outcome::Fail(format!("in-process fit failed ({e}) but ska cov succeeded")));
                }
                return Err(Outcome::Inconclusive(format!("fit did not converge: {e}")));
            }
            Ok(x) => x,
        };
        if counts != hist {
            let first = counts.iter().zip(hist.iter()).position(|(a, b)| a != b);
            return Err(Outcome::Fail(format!(
                "multiplicity histogram differs from the model: lengths {} vs {}, first difference at count {:?}: {:?} vs {:?}",
                counts.len(), hist.len(), first.map(|i| i + 1), first.map(|i| counts[i]), first.map(|i| hist[i])
            )));
        }
        if ret != cutoff {
            return Err(Outcome::Fail(format!("fit_histogram returned {ret} but stored cutoff {cutoff}")));
        }
        let (hc, alt) = h_cutoff(w0, cc, counts.len());
        if cutoff != hc && Some(cutoff) != alt && !(alt.is_some() && cutoff == alt.unwrap() + 1) {
            return Err(Outcome::Fail(format!("cutoff {cutoff} for fitted w0={w0} c={cc}: smallest count where coverage outweighs error is {hc} (table length {})", counts.len())));
        }
        must_ok(&o, "ska cov")?;
        // stderr cutoff
        let cli_cut: Option<usize> = o.stderr.lines().find_map(|l| l.strip_prefix("Estimated cutoff\t").and_then(|x| x.trim().parse().ok()));
        if cli_cut != Some(cutoff) {
            return Err(Outcome::Fail(format!("CLI reports cutoff {:?}, in-process fit gives {cutoff}", cli_cut)));
        }
        // stdout table
        let out = o.out_str();
        let mut lines = out.lines();
        if lines.next() != Some("Count\tK_mers\tMixture_density\tComponent") {
            return Err(Outcome::Fail("unexpected table header".into()));
        }
        let rows: Vec<Vec<&str>> = lines.map(|l| l.split('\t').collect()).collect();
        if rows.len() != hist.len() {
            return Err(Outcome::Fail(format!("table has {} rows, the model's histogram has {} (last multiplicity shared by >= 50 k-mers)", rows.len(), hist.len())));
        }
        for (i, r) in rows.iter().enumerate() {
            if r.len() != 4 {
                return Err(Outcome::Fail(format!("malformed row {r:?}")));
            }
            if r[0] != (i + 1).to_string() || r[1] != hist[i].to_string() {
                return Err(Outcome::Fail(format!("row {}: printed count/k-mers {}/{} expected {}/{}", i + 1, r[0], r[1], i + 1, hist[i])));
            }
            let want_label = if i + 1 < cutoff { "Error" } else { "Coverage" };
            if r[3] != want_label {
                return Err(Outcome::Fail(format!("row {} labelled {} with cutoff {cutoff}", i + 1, r[3])));
            }
            let dens: f64 = r[2].parse().map_err(|_| Outcome::Fail(format!("bad density {}", r[2])))?;
            let want = ln_mix(w0, cc, i + 1).exp();
            if !rel_close(dens, want, 1e-9, 1e-300) {
                return Err(Outcome::Fail(format!("row {}: mixture density {dens:e}, expected {want:e} for w0={w0} c={cc}", i + 1)));
            }
        }
        Ok((cutoff > 1 && cutoff < hist.len(), hist.len()))
    })();
    ctx.done(&dir);
    match r {
        Err(Outcome::Fail(m)) => Outcome::Fail(format!("k={} rc={} genome_len={} coverage={} read_len={} err_pm={} read_seed={}: {m}", c.k, c.rc, c.genome.len(), c.coverage, c.read_len, c.err_pm, c.read_seed)),
        Err(o) => o,
        Ok((interior, len)) => {
            let mut cl = vec![];
            if interior { cl.push("cutoff_interior"); }
            if c.k >= 33 { cl.push("128bit"); }
            if !c.rc { cl.push("single_strand"); }
            if c.err_pm == 0 { cl.push("error_free"); }
            if len >= 50 { cl.push("table>=50_rows"); }
            if len > 255 { cl.push("multiplicities>255"); }
            pass(true, key_of(&(c.k, c.rc, &c.genome, c.coverage, c.read_len, c.err_pm, c.read_seed)), cl)
        }
    }
}

fn stages(tier: Tier) -> Vec<Box<dyn Stage>> {
    vec![
        gen_stage_show(
            "points",
            "generated: parameter points w0 in (0.01,0.99), c in [1,200] (c=1 included) and histograms of length 5-300 with counts up to 10^6. Oracle: hooked log_likelihood == harness two-Poisson mixture log-likelihood (log-factorials by summation, rel 1e-10); hooked grad_ll == harness analytic gradient (rel 1e-8) and == central finite difference of the hooked likelihood; hooked find_cutoff == smallest count where the coverage component outweighs the error component, capped. Every case non-trivial; distinct by (w0, c, counts).",
            tier.pick(24_000, 400_000),
            800,
            point_strategy,
            check_point,
            |p| json!({"w0": p.w0, "c": p.c, "histogram_length": p.counts.len(), "first_counts": p.counts.iter().take(8).collect::<Vec<_>>()}),
        ),
        gen_stage_show(
            "reads",
            "generated: genome 2-6 kb (in an eighth of the cases with a 4-6 kb element in 6-8 copies and coverage >= 50, so that >= 50 k-mers share multiplicities above 255), coverage 10-80, read length 80-150, error 0-3%, 0.05% N, base qualities all 'I' or arbitrary (cov ignores them), both orientations, reads alternating over two files, in two fifths of the sets a third of one file's reads moved to the other (placement is a pure function of the case's read_seed), in a third of the sets a file starts with an all-N read or a 4-base read, in an eighth (k <= 41) poly-G reads give one split k-mer more than 65536 occurrences, k in {5,9,15,21,31,33,41,63} or any valid k, both strand modes. Oracle: fitted histogram (hook) and printed K_mers column == model multiplicity histogram of canonical split k-mers up to the last multiplicity shared by >= 50; cutoff (return value, stored, stderr) == harness cutoff for the fitted parameters; labels Error iff count < cutoff; Mixture_density == harness density (rel 1e-9). A fit that does not converge is inconclusive. Every decided case non-trivial.",
            tier.pick(320, 4000),
            30,
            reads_strategy,
            check_reads,
            |c| json!({"k": c.k, "two_strand": c.rc, "genome_len": c.genome.len(), "coverage": c.coverage, "read_len": c.read_len, "err_per_mille": c.err_pm}),
        ),
    ]
}

pub fn def() -> PropDef {
    PropDef {
        id: "C20",
        level: "exploration",
        assumptions: &[
            "hook: cargo feature verif-hooks re-exports log_likelihood, grad_ll, find_cutoff and the fitted state (add-only)",
            "convergence of the optimiser is not part of the property: a non-converging fit is counted as inconclusive",
            "split k-mers are counted by their arms only (middle base ignored), as the tool defines them",
        ],
        stages,
        post: None,
    }
}
