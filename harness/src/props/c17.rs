//! C17 — ska lo SNP calls are real, complete for isolated SNPs, and well formed.

use proptest::prelude::*;
use serde::{Deserialize, Serialize};
use serde_json::json;

use super::common::*;
use super::PropDef;
use crate::cli::{self, run_ska};
use crate::engine::{gen_stage_show, key_of, pass, Ctx, Outcome, Stage, Tier};
use crate::gen;
use crate::model;

#[derive(Clone, Debug, Serialize, Deserialize)]
pub struct Case {
    pub k: usize,
    pub n_samples: usize,
    pub material: Vec<u8>,
    /// first site offset selector, tail selector
    pub lead: u16,
    pub tail: u16,
    /// per site: (extra gap selector, allele rotations per sample (cyclic))
    pub sites: Vec<(u16, Vec<u8>)>,
    /// per sample orientation (cyclic)
    pub orient: Vec<bool>,
    pub threads: u8,
    // reference mode
    pub with_ref: bool,
    pub ref_is_sample: bool,
    pub ref_rc: bool,
    pub ref_wrap: bool,
    pub m04: bool,
    /// -m for the reference-free run: 0 default, 1 -> 0, 2 -> 0.05, 3 -> 0.4, 4 -> 1
    #[serde(default)]
    pub m_sel: u8,
    /// reference file: 0 plain, 1 gzip (one member), 2 gzip with two members (as bgzip writes)
    #[serde(default)]
    pub ref_gz: u8,
    /// the second site gets the flanks of the first ((k-1)/2 bases on either side) and the other two bases as
    /// alleles (first site A/C, second G/T): two loci of one split k-mer family, every (k-1)-mer still unique
    #[serde(default)]
    pub twin_flanks: bool,
    /// (reference mode) the reference starts later than the samples do: its first base lies 9..k-2 bases before the
    /// first site (a sub-region reference, or a replicon linearised elsewhere)
    #[serde(default)]
    pub ref_trim: Option<u8>,
    /// (reference mode) the reference also holds, behind a spacer at its end, an inverted partial copy of one site's
    /// window (its left flank, the site and 7 more bases, reverse-complemented) that no sample has (a paralogue in
    /// the reference strain)
    #[serde(default)]
    pub ref_paralog: Option<u8>,
}

fn case_strategy(with_ref: bool) -> BoxedStrategy<Case> {
    let ks: Vec<usize> = if with_ref { vec![15, 17, 19, 21, 25, 31, 33] } else { vec![7, 9, 11, 13, 15, 17, 21, 25, 31, 33] };
    (
        prop::sample::select(ks),
        3usize..=10,
        proptest::collection::vec(0u8..4, 300..800),
        any::<u16>(),
        any::<u16>(),
        proptest::collection::vec((any::<u16>(), proptest::collection::vec(0u8..4, 2..10)), 1..6),
        proptest::collection::vec(any::<bool>(), 1..6),
        prop::sample::select(vec![1u8, 1, 2, 3, 4, 8]),
        (prop::bool::weighted(0.3), prop::bool::weighted(0.3), any::<bool>(), any::<bool>(), prop_oneof![3 => Just(0u8), 2 => Just(1u8), 1 => Just(2u8), 1 => Just(3u8), 1 => Just(4u8)], prop_oneof![3 => Just(0u8), 1 => Just(1u8), 2 => Just(2u8)], prop::bool::weighted(0.15), prop_oneof![4 => Just(None), 1 => any::<u8>().prop_map(Some)], prop_oneof![4 => Just(None), 1 => any::<u8>().prop_map(Some)]),
    )
        .prop_map(move |(k, n_samples, material, lead, tail, sites, orient, threads, (ref_is_sample, ref_rc, ref_wrap, m04, m_sel, ref_gz, twin_flanks, ref_trim, ref_paralog))| Case {
            k, n_samples, material, lead, tail, sites, orient, threads, with_ref, ref_is_sample, ref_rc, ref_wrap, m04, m_sel, ref_gz, twin_flanks, ref_trim, ref_paralog,
        })
        .boxed()
}

pub struct Mat {
    pub ancestor: Vec<u8>,
    pub sites: Vec<(usize, Vec<u8>)>,
    /// samples in forward orientation
    pub fwd: Vec<Vec<u8>>,
    pub samples: Vec<Sample>,
}

pub fn materialise(c: &Case) -> Result<Mat, String> {
    let k = c.k;
    let mut pos = Vec::new();
    // the first site may sit at the smallest callable distance from the start (0-based position k-1),
    // the last one at the smallest callable distance from the end (position len-k)
    let mut p = k - 1 + gen::idx(c.lead, k + 2);
    for (g, _) in &c.sites {
        pos.push(p);
        p += 2 * k + gen::idx(*g, k + 1);
    }
    let last = *pos.last().unwrap();
    let len = last + k + gen::idx(c.tail, 2 * k + 1);
    let mut seen = std::collections::HashSet::new();
    let mut anc = gen::unique_seq(&c.material, len, k - 1, false, &mut seen).ok_or("no unique extension")?;
    let twin = c.twin_flanks && pos.len() >= 2 && pos[0] >= (k - 1) / 2;
    if twin {
        let (h, p0, p1) = ((k - 1) / 2, pos[0], pos[1]);
        let (l, r) = (anc[p0 - h..p0].to_vec(), anc[p0 + 1..p0 + 1 + h].to_vec());
        anc[p1 - h..p1].copy_from_slice(&l);
        anc[p1 + 1..p1 + 1 + h].copy_from_slice(&r);
        anc[p0] = b'A';
        anc[p1] = b'G';
    }
    let mut sites = Vec::new();
    for (si, (pp, (_, rots))) in pos.iter().zip(c.sites.iter()).enumerate() {
        let ai = model::BASES.iter().position(|b| *b == anc[*pp]).unwrap();
        if twin && si < 2 {
            let pair: [u8; 2] = if si == 0 { [b'A', b'C'] } else { [b'G', b'T'] };
            let mut alleles: Vec<u8> = (0..c.n_samples).map(|j| pair[rots[j % rots.len()] as usize % 2]).collect();
            if alleles.iter().all(|a| *a == alleles[0]) {
                let j = (si + 1) % c.n_samples;
                alleles[j] = if alleles[j] == pair[0] { pair[1] } else { pair[0] };
            }
            sites.push((*pp, alleles));
            continue;
        }
        let mut alleles: Vec<u8> = (0..c.n_samples).map(|j| model::BASES[(ai + rots[j % rots.len()] as usize) % 4]).collect();
        if alleles.iter().all(|a| *a == alleles[0]) {
            let j = si % c.n_samples;
            alleles[j] = model::BASES[(model::BASES.iter().position(|b| *b == alleles[j]).unwrap() + 1 + si % 3) % 4];
        }
        sites.push((*pp, alleles));
    }
    let mut fwd = Vec::new();
    let mut items = Vec::new();
    let w = k - 1;
    let mut all = vec![anc.clone()];
    for j in 0..c.n_samples {
        let mut s = anc.clone();
        for (pp, al) in &sites {
            s[*pp] = al[j];
        }
        all.push(s.clone());
        fwd.push(s);
    }
    for s in &all {
        let origins: Vec<u64> = (0..=(s.len() - w))
            .map(|st| {
                let mut ctx = 0u64;
                for (pp, _) in &sites {
                    if *pp >= st && *pp < st + w {
                        ctx = ctx * 5 + 1 + model::BASES.iter().position(|b| *b == s[*pp]).unwrap() as u64;
                    }
                }
                ((st as u64) << 16) | (ctx & 0xffff)
            })
            .collect();
        items.push((s.clone(), origins));
    }
    if !gen::words_consistent(&items, w, false) {
        return Err("(k-1)-mers not unique after substitution".into());
    }
    let samples = fwd
        .iter()
        .enumerate()
        .map(|(j, s)| (format!("{}{j}", ["m", "c", "x", "a", "t", "g", "p", "e", "z", "k"][j % 10]), vec![if c.orient[j % c.orient.len()] { model::revcomp(s) } else { s.clone() }]))
        .collect();
    Ok(Mat { ancestor: anc, sites, fwd, samples })
}

pub fn m_arg(sel: u8) -> Option<&'static str> {
    match sel % 5 {
        1 => Some("0"),
        2 => Some("0.05"),
        3 => Some("0.4"),
        4 => Some("1"),
        _ => None,
    }
}

pub fn read_aln(path: &std::path::Path) -> Result<Vec<(String, Vec<u8>)>, String> {
    let t = std::fs::read_to_string(path).map_err(|e| format!("{}: {e}", path.display()))?;
    Ok(model::parse_fasta(&t))
}

fn describe(c: &Case, m: &Mat) -> String {
    format!("k={} threads={} -m={:?} ancestor={} sites={:?}", c.k, c.threads, m_arg(c.m_sel), lossy(&m.ancestor), m.sites.iter().map(|(p, a)| (*p, lossy(a))).collect::<Vec<_>>())
}

fn check_free(c: &Case, ctx: &Ctx) -> Outcome {
    let m = match materialise(c) {
        Ok(m) => m,
        Err(e) => return Outcome::Reject(e),
    };
    let dir = ctx.case_dir();
    let r: Result<(), Outcome> = (|| {
        must_ok(&build(ctx, &dir, "x", &m.samples, c.k, true, 1), "ska build")?;
        let ts = c.threads.to_string();
        // no sample is missing at an isolated SNP, so every allowed missing fraction (0 included) must report it
        let mut args = vec!["lo", "x.skf", "out", "--threads", &ts];
        if let Some(m) = m_arg(c.m_sel) {
            args.push("-m");
            args.push(m);
        }
        // every other run writes over the (longer) outputs of an earlier run with the same prefix
        if (c.lead as usize + c.n_samples + c.k) % 2 == 0 {
            for sfx in ["_indels.vcf", "_snps.fas", "_snps.vcf", "_pseudo_genomes.fas"] {
                cli::plant_stale_output(&dir.join(format!("out{sfx}")));
            }
        }
        let o = run_ska(ctx, &dir, &args);
        must_ok(&o, "ska lo on isolated SNPs")?;
        let aln = read_aln(&dir.join("out_snps.fas")).map_err(Outcome::Fail)?;
        let names: Vec<String> = aln.iter().map(|a| a.0.clone()).collect();
        let exp_names: Vec<String> = m.samples.iter().map(|s| s.0.clone()).collect();
        if names != exp_names {
            return Err(Outcome::Fail(format!("names {:?}, expected {:?}", names, exp_names)));
        }
        let cols = model::aln_columns(&aln).map_err(Outcome::Fail)?;
        let mut got: Vec<Vec<u8>> = cols.iter().map(|x| model::norm_column(x)).collect();
        got.sort();
        let mut exp: Vec<Vec<u8>> = m.sites.iter().map(|(_, al)| model::norm_column(al)).collect();
        exp.sort();
        if got != exp {
            let msg = format!("SNP columns (up to complement) {:?}, planted {:?}", got.iter().map(|x| lossy(x)).collect::<Vec<_>>(), exp.iter().map(|x| lossy(x)).collect::<Vec<_>>());
            // recorded finding lo-high-m-incomplete-column: every column is a planted column in which
            // some samples' bases are replaced by '-', within the allowed missing fraction
            let m_allowed: f64 = m_arg(c.m_sel).map(|x| x.parse().unwrap()).unwrap_or(0.1);
            if incomplete_only(&cols, &m.sites, m_allowed) && known_incomplete_finding() {
                return Err(Outcome::Inconclusive(format!("KNOWN lo-high-m-incomplete-column: {msg}")));
            }
            return Err(Outcome::Fail(msg));
        }
        Ok(())
    })();
    ctx.done(&dir);
    match r {
        Err(Outcome::Fail(msg)) => Outcome::Fail(format!("{}: {msg}", describe(c, &m))),
        Err(Outcome::Inconclusive(msg)) => {
            if !ctx.replay {
                KNOWN_INCOMPLETE.fetch_add(1, std::sync::atomic::Ordering::Relaxed);
            }
            Outcome::Inconclusive(format!("{}: {msg}", describe(c, &m)))
        }
        Err(o) => o,
        Ok(()) => {
            let mut cl = vec![];
            if m.sites.len() >= 3 { cl.push(">=3_sites"); }
            if m.sites.iter().any(|(_, a)| { let mut x = a.clone(); x.sort(); x.dedup(); x.len() >= 3 }) { cl.push("multi_allelic"); }
            if c.threads > 1 { cl.push("threads>1"); }
            if c.twin_flanks && m.sites.len() >= 2 { cl.push("two_sites_with_the_same_flanks_and_disjoint_alleles"); }
            if c.k >= 33 { cl.push("128bit"); }
            if c.m_sel % 5 == 1 { cl.push("-m_0"); }
            if c.m_sel % 5 != 0 { cl.push("-m_given"); }
            pass(true, key_of(&(c.k, &m.fwd, c.threads, c.m_sel)), cl)
        }
    }
}

pub static KNOWN_INCOMPLETE: std::sync::atomic::AtomicU64 = std::sync::atomic::AtomicU64::new(0);

pub fn known_incomplete_finding() -> bool {
    let root = std::env::var("VERIF_ROOT").unwrap_or_else(|_| "/verif".into());
    std::fs::read_to_string(std::path::Path::new(&root).join("known-findings.txt"))
        .map(|t| t.lines().any(|l| l.starts_with("known: property=C17") && l.contains("id=lo-high-m-incomplete-column")))
        .unwrap_or(false)
}

/// true iff the observed columns are exactly the planted columns (one each, either strand) except that
/// in some of them samples are '-', never more than the allowed fraction, and at least one is incomplete
pub fn incomplete_only(cols: &[Vec<u8>], sites: &[(usize, Vec<u8>)], m_allowed: f64) -> bool {
    if cols.len() != sites.len() {
        return false;
    }
    let mut used = vec![false; sites.len()];
    let mut any_incomplete = false;
    for g in cols {
        let n = g.len() as f64;
        let missing = g.iter().filter(|b| **b == b'-').count();
        if missing as f64 / n > m_allowed + 1e-6 {
            return false;
        }
        let hit = sites.iter().enumerate().position(|(i, (_, p))| {
            !used[i]
                && (g.iter().zip(p.iter()).all(|(a, b)| *a == b'-' || a == b) || g.iter().zip(p.iter()).all(|(a, b)| *a == b'-' || model::comp(*a) == *b))
        });
        match hit {
            Some(i) => used[i] = true,
            None => return false,
        }
        if missing > 0 {
            any_incomplete = true;
        }
    }
    any_incomplete
}

pub struct LoVcf {
    pub samples: Vec<String>,
    /// chrom, pos0, ref, alts, gts
    pub recs: Vec<(String, usize, String, Vec<String>, Vec<String>)>,
}

pub fn parse_lo_vcf(text: &str) -> Result<LoVcf, String> {
    let mut v = LoVcf { samples: vec![], recs: vec![] };
    for l in text.lines() {
        if l.starts_with("#CHROM") {
            v.samples = l.split('\t').skip(9).map(|s| s.to_string()).collect();
        } else if !l.starts_with('#') && !l.is_empty() {
            let f: Vec<&str> = l.split('\t').collect();
            if f.len() < 10 {
                return Err(format!("short VCF line {l:?}"));
            }
            let pos: usize = f[1].parse().map_err(|_| format!("bad POS in {l:?}"))?;
            if pos == 0 {
                return Err("POS 0".into());
            }
            let alts = if f[4].is_empty() || f[4] == "." { vec![] } else { f[4].split(',').map(|s| s.to_string()).collect() };
            v.recs.push((f[0].to_string(), pos - 1, f[3].to_string(), alts, f[9..].iter().map(|s| s.to_string()).collect()));
        }
    }
    Ok(v)
}

fn check_ref(c: &Case, ctx: &Ctx) -> Outcome {
    let m = match materialise(c) {
        Ok(m) => m,
        Err(e) => return Outcome::Reject(e),
    };
    let dir = ctx.case_dir();
    let len = m.ancestor.len();
    let refseq = if c.ref_is_sample { m.fwd[0].clone() } else { m.ancestor.clone() };
    let rseq = if c.ref_rc { model::revcomp(&refseq) } else { refseq.clone() };
    // a reference that starts inside the samples' sequence, 9..k-2 bases before the first site
    let trim: usize = match c.ref_trim {
        Some(sel) if c.k >= 13 => {
            let pmin = m.sites.iter().map(|(p, _)| if c.ref_rc { len - 1 - p } else { *p }).min().unwrap();
            pmin.saturating_sub(9 + sel as usize % (c.k - 10))
        }
        _ => 0,
    };
    let mut rseq: Vec<u8> = rseq[trim..].to_vec();
    let mut paralog = false;
    if let (Some(sel), true) = (c.ref_paralog, c.k >= 15) {
        let q = {
            let (p, _) = &m.sites[sel as usize % m.sites.len()];
            (if c.ref_rc { len - 1 - p } else { *p }) - trim
        };
        if q >= c.k - 1 && q + 8 <= rseq.len() {
            let piece = model::revcomp(&rseq[q - (c.k - 1)..q + 8]);
            // a spacer of the reference's own making (no sample has it), then the inverted piece
            let spacer: Vec<u8> = (0..c.k + 7).map(|i| model::BASES[(i * i + i / 2 + sel as usize + c.k) % 4]).collect();
            rseq.extend(spacer);
            rseq.extend(piece);
            paralog = true;
        }
    }
    let rseq = rseq;
    let rlen = rseq.len();
    let r: Result<(usize, usize), Outcome> = (|| {
        must_ok(&build(ctx, &dir, "x", &m.samples, c.k, true, 1), "ska build")?;
        // Every fifth reference is a consensus-style sequence: an IUPAC ambiguity code stands midway between
        // two neighbouring sites (>= k bases from both, so no k-mer that covers a site contains it). It must
        // count as one reference position like any other letter.
        let mut rtext = rseq.clone();
        let mut rcodes: Vec<usize> = Vec::new();
        if c.tail % 5 == 0 {
            let mut ps: Vec<usize> = m.sites.iter().map(|(p, _)| (if c.ref_rc { len - 1 - p } else { *p }) - trim).collect();
            ps.sort();
            for (i, w) in ps.windows(2).enumerate().take(3) {
                let mid = (w[0] + w[1]) / 2;
                if mid >= w[0] + c.k && mid + c.k <= w[1] {
                    rtext[mid] = b"RYKM"[(i + c.k) % 4];
                    rcodes.push(mid);
                }
            }
        }
        cli::write_fasta(&dir.join("ref.fa"), &["refname".to_string()], &[rtext], if c.ref_wrap { Some(60) } else { None });
        // a stray blank or tab behind one of the sequence lines in every sixth reference
        if (c.tail as usize + c.k / 2) % 6 == 1 {
            cli::add_trailing_blank(&dir.join("ref.fa"), c.tail as usize / 6 + c.lead as usize);
        }
        // Windows line endings in every fourth reference
        if (c.lead as usize + c.n_samples) % 4 == 0 {
            cli::to_crlf(&dir.join("ref.fa"));
        }
        let ref_file = match c.ref_gz % 3 {
            0 => "ref.fa",
            g => {
                // gzip: one member, or two members split in the middle of the file
                use flate2::write::GzEncoder;
                use std::io::Write;
                let data = std::fs::read(dir.join("ref.fa")).map_err(|e| Outcome::Infra(e.to_string()))?;
                let cut = if g == 2 { data.len() / 2 } else { data.len() };
                let mut out = Vec::new();
                for part in [&data[..cut], &data[cut..]] {
                    if part.is_empty() {
                        continue;
                    }
                    let mut e = GzEncoder::new(Vec::new(), flate2::Compression::default());
                    e.write_all(part).map_err(|e| Outcome::Infra(e.to_string()))?;
                    out.extend(e.finish().map_err(|e| Outcome::Infra(e.to_string()))?);
                }
                std::fs::write(dir.join("ref.fa.gz"), out).map_err(|e| Outcome::Infra(e.to_string()))?;
                "ref.fa.gz"
            }
        };
        let ts = c.threads.to_string();
        let mut args = vec!["lo", "x.skf", "out", "-r", ref_file, "--threads", &ts];
        if c.m04 {
            args.push("-m");
            args.push("0.4");
        } else if let Some(m) = m_arg(c.m_sel) {
            args.push("-m");
            args.push(m);
        }
        // every other run writes over the (longer) outputs of an earlier run with the same prefix
        if (c.lead as usize + c.n_samples + c.k) % 2 == 0 {
            for sfx in ["_indels.vcf", "_snps.fas", "_snps.vcf", "_pseudo_genomes.fas"] {
                cli::plant_stale_output(&dir.join(format!("out{sfx}")));
            }
        }
        let o = run_ska(ctx, &dir, &args);
        must_ok(&o, "ska lo -r on isolated SNPs")?;
        // truth in reference coordinates
        let truth: std::collections::BTreeMap<usize, Vec<u8>> = m
            .sites
            .iter()
            .map(|(p, al)| if c.ref_rc { (len - 1 - p - trim, al.iter().map(|b| model::comp(*b)).collect()) } else { (*p - trim, al.clone()) })
            .collect();
        let vcf = parse_lo_vcf(&std::fs::read_to_string(dir.join("out_snps.vcf")).map_err(|e| Outcome::Fail(format!("out_snps.vcf: {e}")))?).map_err(Outcome::Fail)?;
        let exp_names: Vec<String> = m.samples.iter().map(|s| s.0.clone()).collect();
        if vcf.samples != exp_names {
            return Err(Outcome::Fail(format!("VCF sample columns {:?}", vcf.samples)));
        }
        let mut called = Vec::new();
        for (chrom, p0, refb, alts, gts) in &vcf.recs {
            if chrom != "refname" {
                return Err(Outcome::Fail(format!("CHROM {chrom}")));
            }
            let Some(t) = truth.get(p0) else {
                return Err(Outcome::Fail(format!("SNP reported at reference position {} where nothing was planted (planted: {:?})", p0 + 1, truth.keys().map(|x| x + 1).collect::<Vec<_>>())));
            };
            if refb.as_bytes() != [rseq[*p0]] {
                return Err(Outcome::Fail(format!("position {}: REF={refb}, reference base is {}", p0 + 1, rseq[*p0] as char)));
            }
            if called.contains(p0) {
                return Err(Outcome::Fail(format!("position {} reported twice", p0 + 1)));
            }
            called.push(*p0);
            let mut alleles = vec![refb.clone()];
            alleles.extend(alts.iter().cloned());
            let mut a2 = alts.clone();
            a2.sort();
            a2.dedup();
            if a2.len() != alts.len() || alts.contains(refb) {
                return Err(Outcome::Fail(format!("position {}: ALT {alts:?} not distinct from each other and REF", p0 + 1)));
            }
            if gts.len() != c.n_samples {
                return Err(Outcome::Fail("genotype column count".into()));
            }
            for (j, gt) in gts.iter().enumerate() {
                if gt == "." {
                    continue;
                }
                let dec = gt.parse::<usize>().ok().and_then(|i| alleles.get(i).cloned());
                if dec.as_deref().map(|s| s.as_bytes()) != Some(&[t[j]][..]) {
                    return Err(Outcome::Fail(format!("position {} sample {j}: GT={gt} decodes to {:?}, true base {}", p0 + 1, dec, t[j] as char)));
                }
            }
        }
        let pg = read_aln(&dir.join("out_pseudo_genomes.fas")).map_err(Outcome::Fail)?;
        if pg.len() != c.n_samples || pg.iter().any(|x| x.1.len() != rlen) {
            return Err(Outcome::Fail(format!("pseudo-genome lengths {:?}, reference length {rlen}", pg.iter().map(|x| x.1.len()).collect::<Vec<_>>())));
        }
        for (j, (_, s)) in pg.iter().enumerate() {
            for p0 in 0..rlen {
                if called.contains(&p0) {
                    let ch = s[p0];
                    if ch != b'-' && ch != b'N' && ch != truth[&p0][j] {
                        return Err(Outcome::Fail(format!("pseudo-genome of sample {j} has {} at called position {}, true base {}", ch as char, p0 + 1, truth[&p0][j] as char)));
                    }
                } else if rcodes.contains(&p0) {
                    // an ambiguity code of the reference: one position wide; what letter stands there is not asserted
                } else if s[p0] != rseq[p0] {
                    return Err(Outcome::Fail(format!("pseudo-genome of sample {j} differs from the reference at uncalled position {}", p0 + 1)));
                }
            }
        }
        let snps = read_aln(&dir.join("out_snps.fas")).map_err(Outcome::Fail)?;
        let cols = model::aln_columns(&snps).map_err(Outcome::Fail)?;
        if cols.len() != called.len() {
            return Err(Outcome::Fail(format!("snps.fas has {} columns for {} VCF records", cols.len(), called.len())));
        }
        Ok((called.len(), m.sites.len()))
    })();
    ctx.done(&dir);
    match r {
        Err(Outcome::Fail(msg)) => Outcome::Fail(format!("{} ref_is_sample={} ref_rc={}: {msg}", describe(c, &m), c.ref_is_sample, c.ref_rc)),
        Err(o) => o,
        Ok((called, planted)) => {
            let mut cl = vec![];
            if called == planted { cl.push("all_planted_called"); }
            if called > 0 { cl.push("some_called"); }
            if c.ref_rc { cl.push("reference_reverse_complemented"); }
            if trim > 0 { cl.push("reference_starts_inside_the_first_site's_flank"); }
            if paralog { cl.push("reference_with_an_inverted_partial_copy_of_a_site's_window"); }
            if c.twin_flanks && m.sites.len() >= 2 { cl.push("two_sites_with_the_same_flanks_and_disjoint_alleles"); }
            if c.ref_is_sample { cl.push("reference_is_a_sample"); }
            if c.ref_gz % 3 == 1 { cl.push("reference_gzip"); }
            if c.ref_gz % 3 == 2 { cl.push("reference_gzip_two_members"); }
            if m.sites.iter().any(|(_, a)| { let mut x = a.clone(); x.sort(); x.dedup(); x.len() >= 3 }) { cl.push("multi_allelic"); }
            pass(called > 0, key_of(&(c.k, &m.fwd, c.ref_rc, c.ref_is_sample, c.m04)), cl)
        }
    }
}

// ---- (c) well-formedness on arbitrary (messy) inputs

#[derive(Clone, Debug, Serialize, Deserialize)]
pub struct MessyCase {
    pub k: usize,
    pub anc: Vec<u8>,
    /// per sample: mutations (position selector, kind 0 snp / 1 ins / 2 del, base), orientation, truncation
    pub samples: Vec<(Vec<gen::Mut>, bool, Option<u16>)>,
    /// -m in hundredths (0..=50)
    pub m: u8,
    pub threads: u8,
}

fn messy_strategy() -> BoxedStrategy<MessyCase> {
    (
        prop::sample::select(vec![7usize, 11, 15, 17, 21, 31, 33]),
        proptest::collection::vec(0u8..4, 120..400),
        proptest::collection::vec(
            (
                proptest::collection::vec((any::<u16>(), prop_oneof![8 => Just(0u8), 1 => Just(1u8), 1 => Just(2u8)], 0u8..4).prop_map(|(pos, kind, base)| gen::Mut { pos, kind, base }), 0..8),
                any::<bool>(),
                prop_oneof![6 => Just(None), 1 => any::<u16>().prop_map(Some)],
            ),
            3..9,
        ),
        prop_oneof![2 => Just(10u8), 1 => 0u8..=50],
        prop::sample::select(vec![1u8, 2, 3, 4, 8]),
    )
        .prop_map(|(k, anc, samples, m, threads)| MessyCase { k, anc, samples, m, threads })
        .boxed()
}

pub fn messy_samples(c: &MessyCase) -> Vec<Sample> {
    let anc = gen::bases_to_seq(&c.anc);
    c.samples
        .iter()
        .enumerate()
        .map(|(i, (muts, rc, trunc))| {
            let mut s = gen::apply_muts(&anc, muts);
            if let Some(t) = trunc {
                let keep = (c.k + 5 + gen::idx(*t, s.len())).min(s.len());
                s.truncate(keep);
            }
            if *rc {
                s = model::revcomp(&s);
            }
            (format!("smp{i}"), vec![s])
        })
        .collect()
}

fn check_messy(c: &MessyCase, ctx: &Ctx) -> Outcome {
    let samples = messy_samples(c);
    let k = c.k;
    let dir = ctx.case_dir();
    let mfrac = c.m as f64 / 100.0;
    let r: Result<Option<usize>, Outcome> = (|| {
        must_ok(&build(ctx, &dir, "x", &samples, k, true, 1), "ska build")?;
        let (ts, ms) = (c.threads.to_string(), format!("{mfrac}"));
        // a third of the runs with k >= 15 position the SNPs on a reference (the ancestor): the output
        // must be just as well formed
        let with_ref = k >= 15 && (c.threads as usize + c.m as usize + samples.len()) % 3 == 0;
        let mut args = vec!["lo", "x.skf", "out", "--threads", &ts, "-m", &ms];
        if with_ref {
            cli::write_fasta(&dir.join("ref.fa"), &["anc".to_string()], &[gen::bases_to_seq(&c.anc)], None);
            args.extend_from_slice(&["-r", "ref.fa"]);
        }
        let o = run_ska(ctx, &dir, &args);
        if let Some(e) = o.infra() {
            return Err(Outcome::Infra(e));
        }
        if !o.ok() {
            if o.code == Some(1) && o.stderr.contains("no entry node") {
                return Ok(None);
            }
            return Err(Outcome::Fail(format!("ska lo failed: {:?} {}", o.code, o.err_tail())));
        }
        let aln = read_aln(&dir.join("out_snps.fas")).map_err(Outcome::Fail)?;
        if aln.len() != samples.len() {
            return Err(Outcome::Fail(format!("{} sequences for {} samples", aln.len(), samples.len())));
        }
        let cols = model::aln_columns(&aln).map_err(Outcome::Fail)?;
        for col in &cols {
            let mut d: Vec<u8> = col.iter().copied().filter(|b| model::is_acgt(*b)).collect();
            d.sort();
            d.dedup();
            if d.len() < 2 {
                return Err(Outcome::Fail(format!("column {:?} has fewer than two distinct A/C/G/T alleles", lossy(col))));
            }
            let missing = col.iter().filter(|b| !model::is_acgt(**b)).count() as f64 / col.len() as f64;
            if missing > mfrac + 1e-6 {
                return Err(Outcome::Fail(format!("column {:?} has {:.3} missing, allowed {mfrac}", lossy(col), missing)));
            }
        }
        Ok(Some(cols.len()))
    })();
    ctx.done(&dir);
    match r {
        Err(Outcome::Fail(msg)) => Outcome::Fail(format!("k={k} m={mfrac} samples={}: {msg}", super::common::show_samples(&samples))),
        Err(o) => o,
        Ok(None) => pass(false, 0, vec!["no_entry_node(refusal)"]),
        Ok(Some(n)) => pass(n > 0, key_of(&(k, c.m, &samples)), if n > 0 { vec!["columns_emitted"] } else { vec!["no_columns"] }),
    }
}

const RULE_A: &str = "generated: ancestor with unique (k-1)-mers on both strands (greedy construction, re-checked over the union of all derived samples; rejections counted), 1-5 substitutions >= 2k apart and >= k from the ends, 2-4 alleles over 3-10 samples with >= 2 alleles present, each sample randomly reverse-complemented, k in 7..33, threads 1-8, -m default / 0 / 0.05 / 0.4 / 1 (no sample is missing at such a site, so every allowed fraction must report it). Oracle: multiset of SNP-alignment columns up to complement == planted columns; names in order; equal lengths; ska lo must succeed. Every accepted case non-trivial.";
const RULE_B: &str = "same construction with a reference (-r; k >= 15; reference = ancestor or a sample, 30% reverse-complemented, wrapped or not, plain / gzip / two-member gzip file, -m default or 0.4). A planted SNP that is not reported must not be due to a truncated reference: pseudo-genomes must have the full reference length. Oracle: every VCF record at a planted coordinate (in reference coordinates), REF == reference base, ALT distinct, genotypes decode to the true alleles ('.' allowed), no position twice; pseudo-genomes of reference length, true base (or '-'/N) at called positions and the reference base elsewhere; snps.fas has one column per record. Non-trivial: >= 1 SNP called.";
const RULE_C: &str = "generated: 3-8 genomes derived from a random 120-400 base ancestor by 0-7 random substitutions/indels each (close variants allowed), random reverse complement, 1 in 7 truncated, -m 0..0.5, threads 1/2/4. Oracle (well-formedness only): equal lengths, every column >= 2 distinct A/C/G/T, missing fraction <= m (+1e-6); exit 1 'no entry node' is a legitimate refusal. Non-trivial: >= 1 column.";

fn show(c: &Case) -> serde_json::Value {
    match materialise(c) {
        Ok(m) => json!({"k": c.k, "threads": c.threads, "ancestor": lossy(&m.ancestor), "sites": m.sites.iter().map(|(p, a)| json!({"pos": p, "alleles": lossy(a)})).collect::<Vec<_>>(), "with_ref": c.with_ref}),
        Err(e) => json!({"rejected": e}),
    }
}

pub fn case_strategy_pub(with_ref: bool) -> BoxedStrategy<Case> {
    case_strategy(with_ref)
}

// ---- a reference of more than 2^20 bases, SNPs on and around position 2^20 ----

#[derive(Clone, Debug, Serialize, Deserialize)]
pub struct BigRefCase {
    pub seed: u64,
    pub n_samples: usize,
    pub threads: u8,
    /// offset of the boundary site from 2^20 (-40..40)
    pub off: i8,
}

fn bigref_strategy() -> BoxedStrategy<BigRefCase> {
    (any::<u64>(), 3usize..=4, prop::sample::select(vec![1u8, 2, 4]), -40i8..=40)
        .prop_map(|(seed, n_samples, threads, off)| BigRefCase { seed, n_samples, threads, off })
        .boxed()
}

fn check_bigref(c: &BigRefCase, ctx: &Ctx) -> Outcome {
    let k = 31usize;
    let mut x = c.seed | 1;
    let mut next = move || {
        x = crate::engine::splitmix64(x);
        x
    };
    let len = (1usize << 20) + 20_000 + (c.seed % 5000) as usize;
    let anc: Vec<u8> = (0..len).map(|_| model::BASES[(next() >> 11) as usize % 4]).collect();
    let b = ((1i64 << 20) + c.off as i64) as usize;
    // sites >= 2k apart: far from the boundary, on / next to it, a little behind it, near the end
    let pos: Vec<usize> = vec![300_000 + (c.seed % 1000) as usize, b, b + 2 * k + 5 + (c.seed % 50) as usize, len - 5000];
    let mut truth: std::collections::BTreeMap<usize, Vec<u8>> = std::collections::BTreeMap::new();
    let mut fwd: Vec<Vec<u8>> = vec![anc.clone(); c.n_samples];
    for (si, p) in pos.iter().enumerate() {
        let ai = model::BASES.iter().position(|q| *q == anc[*p]).unwrap();
        let mut al = Vec::new();
        for j in 0..c.n_samples {
            // sample (si % n) and the one after it deviate, the one after it with a third allele at odd sites
            let rot = if j == si % c.n_samples { 1 } else if j == (si + 1) % c.n_samples && si % 2 == 1 { 2 } else { 0 };
            let base = model::BASES[(ai + rot) % 4];
            fwd[j][*p] = base;
            al.push(base);
        }
        truth.insert(*p, al);
    }
    let samples: Vec<Sample> = fwd.iter().enumerate().map(|(j, s)| (gen::set_sample_name(j), vec![if (c.seed >> j) & 1 == 1 { model::revcomp(s) } else { s.clone() }])).collect();
    let dir = ctx.case_dir();
    let r: Result<(), Outcome> = (|| {
        must_ok(&build(ctx, &dir, "x", &samples, k, true, 1), "ska build")?;
        cli::write_fasta(&dir.join("ref.fa"), &["refname".to_string()], &[anc.clone()], Some(80));
        let ts = c.threads.to_string();
        must_ok(&run_ska(ctx, &dir, &["lo", "x.skf", "out", "-r", "ref.fa", "--threads", &ts]), "ska lo -r on a 1 Mb reference")?;
        let vcf = parse_lo_vcf(&std::fs::read_to_string(dir.join("out_snps.vcf")).map_err(|e| Outcome::Fail(format!("out_snps.vcf: {e}")))?).map_err(Outcome::Fail)?;
        let mut called = Vec::new();
        for (_chrom, p0, refb, alts, gts) in &vcf.recs {
            let Some(t) = truth.get(p0) else {
                return Err(Outcome::Fail(format!("SNP reported at reference position {} where nothing was planted (planted: {:?})", p0 + 1, truth.keys().map(|x| x + 1).collect::<Vec<_>>())));
            };
            if refb.as_bytes() != [anc[*p0]] {
                return Err(Outcome::Fail(format!("position {}: REF={refb}, reference base is {}", p0 + 1, anc[*p0] as char)));
            }
            called.push(*p0);
            let mut alleles = vec![refb.clone()];
            alleles.extend(alts.iter().cloned());
            for (j, gt) in gts.iter().enumerate() {
                let dec = gt.parse::<usize>().ok().and_then(|i| alleles.get(i).cloned());
                if dec.as_deref().map(|s| s.as_bytes()) != Some(&[t[j]][..]) {
                    return Err(Outcome::Fail(format!("position {} sample {j}: GT={gt} decodes to {:?}, true base {}", p0 + 1, dec, t[j] as char)));
                }
            }
        }
        for p in truth.keys() {
            if !called.contains(p) {
                return Err(Outcome::Fail(format!("the isolated SNP planted at reference position {} (2^20 = 1048576) is not reported; reported: {:?}", p + 1, called.iter().map(|x| x + 1).collect::<Vec<_>>())));
            }
        }
        let pg = read_aln(&dir.join("out_pseudo_genomes.fas")).map_err(Outcome::Fail)?;
        if pg.len() != c.n_samples || pg.iter().any(|x| x.1.len() != len) {
            return Err(Outcome::Fail(format!("pseudo-genome lengths {:?}, reference length {len}", pg.iter().map(|x| x.1.len()).collect::<Vec<_>>())));
        }
        for (j, (_, s)) in pg.iter().enumerate() {
            for (p, t) in &truth {
                if s[*p] != t[j] {
                    return Err(Outcome::Fail(format!("pseudo-genome of sample {j} has {} at called position {}, true base {}", s[*p] as char, p + 1, t[j] as char)));
                }
            }
        }
        Ok(())
    })();
    ctx.done(&dir);
    match r {
        Err(Outcome::Fail(m)) => Outcome::Fail(format!("k=31 reference of {len} bases (seed {}), {} samples, threads {}, boundary site at {}: {m}", c.seed, c.n_samples, c.threads, b + 1)),
        Err(o) => o,
        Ok(()) => pass(true, key_of(&(c.seed, c.n_samples, c.threads, c.off)), vec!["reference>2^20"]),
    }
}

pub fn messy_strategy_pub() -> BoxedStrategy<MessyCase> {
    messy_strategy()
}

fn stages(tier: Tier) -> Vec<Box<dyn Stage>> {
    vec![
        gen_stage_show("reference_free", RULE_A, tier.pick(1200, 16_000), 150, || case_strategy(false), check_free, show),
        gen_stage_show("with_reference", RULE_B, tier.pick(640, 8000), 150, || case_strategy(true), check_ref, show),
        gen_stage_show("large_reference", "a random reference of 2^20 + 20000..25000 bases, 3-4 samples (random orientation) with four isolated SNPs: one far in front, one at 2^20 - 40 .. 2^20 + 40, one 2k+5..2k+55 behind it, one near the end (bi- and tri-allelic); k=31, ska lo -r with 1/2/4 threads. Oracle: exactly the four sites, true REF and alleles per sample, pseudo-genomes of reference length with the true bases at the sites. Every case non-trivial.", tier.pick(4, 48), 2, bigref_strategy, check_bigref, |c| serde_json::to_value(c).unwrap()),
        gen_stage_show("well_formed", RULE_C, tier.pick(800, 10_000), 150, messy_strategy, check_messy, |c| json!({"k": c.k, "m": c.m, "samples": messy_samples(c).iter().map(|s| lossy(&s.1[0])).collect::<Vec<_>>()})),
    ]
}

fn post(rt: &mut crate::engine::Runtime) {
    // the saved reproducer of the recorded finding
    let known = known_incomplete_finding();
    let dir = rt.verif_root.join("notes").join("c17-lo-high-m");
    let scratch = rt.scratch_root.join("c17-repro");
    let _ = std::fs::create_dir_all(&scratch);
    let mut shows = false;
    if dir.join("s0.fa").exists() {
        let ctx = Ctx { scratch: scratch.clone(), ska: rt.ska.clone(), tier: rt.tier, replay: false, counter: std::cell::Cell::new(0) };
        for i in 0..4 {
            let _ = std::fs::copy(dir.join(format!("s{i}.fa")), scratch.join(format!("s{i}.fa")));
        }
        let b = run_ska(&ctx, &scratch, &["build", "-k", "9", "-o", "x", "s0.fa", "s1.fa", "s2.fa", "s3.fa"]);
        let o = run_ska(&ctx, &scratch, &["lo", "x.skf", "out", "-m", "0.4"]);
        if b.ok() && o.ok() {
            if let Ok(aln) = read_aln(&scratch.join("out_snps.fas")) {
                shows = aln.iter().any(|(_, s)| s.contains(&b'-'));
            }
        }
    }
    let n = KNOWN_INCOMPLETE.load(std::sync::atomic::Ordering::Relaxed);
    if let Some(s) = rt.stages.iter_mut().find(|s| s.name == "reference_free") {
        s.extra.insert("generated_cases_in_known_finding_class".into(), json!(n));
        s.extra.insert("saved_reproducer_still_shows".into(), json!(shows));
    }
    if shows || n > 0 {
        if known {
            rt.known_findings.push(format!(
                "id=lo-high-m-incomplete-column subcommand=lo class=isolated-SNP-column-with-missing-samples-within--m: with an allowed missing fraction m such that m*samples >= 1, a planted site can be reported with a sample's true base replaced by '-' although the default -m reports it completely (saved reproducer notes/c17-lo-high-m shows it: {shows}; generated cases in this class: {n})"
            ));
        } else {
            rt.violations.push(crate::engine::Violation {
                stage: "reference_free".into(),
                case: json!({"reproducer": "notes/c17-lo-high-m", "cmd": "ska lo x.skf out -m 0.4"}),
                message: "ska lo -m 0.4 reports an isolated SNP with a sample's base replaced by '-' (complete with the default -m)".into(),
                worker: 0,
            });
        }
    }
}

pub fn def() -> PropDef {
    PropDef {
        id: "C17",
        level: "exploration",
        assumptions: &[
            "completeness is claimed only inside the isolation preconditions: unique (k-1)-mers, substitutions >= 2k apart and >= k from the sequence ends (a SNP closer to an end has no flanking node)",
            "with a reference only soundness is asserted (a SNP whose bubble cannot be positioned may be missing from the VCF)",
            "ska lo is observed through the CLI only (it calls process::exit and configures the global thread pool)",
            "recorded finding lo-high-m-incomplete-column (known-findings.txt): columns that are planted columns with samples replaced by '-' within the allowed fraction are counted, not reported",
        ],
        stages,
        post: Some(post),
    }
}
