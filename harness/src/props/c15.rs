//! C15 — ambiguity codes form the union algebra over {A,C,G,T}; complement respects it.

use proptest::prelude::*;
use serde::{Deserialize, Serialize};
use serde_json::json;

use super::common::*;
use super::PropDef;
use crate::cli;
use crate::engine::{enum_stage, gen_stage_show, key_of, pass, Ctx, Outcome, Runtime, Stage, StageReport, Tier};
use crate::gen;
use crate::model::{self, code_of_mask, comp_mask, mask_of_code, CODES};
use ska::ska_dict::bit_encoding::{base_to_prob, decode_base, encode_base, is_ambiguous, rc_base};

// the two public lookup tables, when the tree exposes them (harness/build.rs probes the source)
#[cfg(ska_iupac_table)]
fn iupac_cell(i: usize) -> Option<u8> {
    Some(ska::ska_dict::bit_encoding::IUPAC[i])
}
#[cfg(not(ska_iupac_table))]
fn iupac_cell(_i: usize) -> Option<u8> {
    None
}
#[cfg(ska_rc_iupac_table)]
fn rc_cell(i: usize) -> Option<u8> {
    Some(ska::ska_dict::bit_encoding::RC_IUPAC[i])
}
#[cfg(not(ska_rc_iupac_table))]
fn rc_cell(_i: usize) -> Option<u8> {
    None
}

/// the union update as `SkaDict` performs it: observe the bases of `set` (mask) in A,C,G,T order and
/// then `extra` for one split k-mer of a single-strand k=7 sample; returns the stored code
fn union_through_build(rt: &Runtime, set: u8, extra: usize, idx: usize) -> Result<u8, String> {
    use ska::ska_dict::SkaDict;
    use ska::{QualFilter, QualOpts};
    let mut recs: Vec<Vec<u8>> = Vec::new();
    let mut push = |m: u8| {
        let mut w = b"ACG".to_vec();
        w.push(m);
        w.extend_from_slice(b"TTC");
        recs.push(w);
    };
    for (bit, ch) in [(1u8, b'A'), (2, b'C'), (4, b'G'), (8, b'T')] {
        if set & bit != 0 {
            push(ch);
        }
    }
    push(model::BASES[extra]);
    let dir = rt.scratch_root.join(format!("c15-union-{idx}"));
    std::fs::create_dir_all(&dir).map_err(|e| e.to_string())?;
    let f = dir.join("u.fa");
    cli::write_fasta_auto(&f, &recs, None);
    let q = QualOpts { min_count: 1, min_qual: 0, qual_filter: QualFilter::NoFilter };
    let path = cli::p(&f);
    let res = std::panic::catch_unwind(std::panic::AssertUnwindSafe(|| {
        let d = SkaDict::<u64>::new(7, 0, (&path, None), "s", false, &q, None);
        d.kmers().iter().map(|(_, v)| *v).collect::<Vec<u8>>()
    }));
    let _ = std::fs::remove_dir_all(&dir);
    match res {
        Ok(v) if v.len() == 1 => Ok(v[0]),
        Ok(v) => Err(format!("{} entries instead of one", v.len())),
        Err(_) => Err("SkaDict::new panicked".to_string()),
    }
}

/// encoded base (A=0,C=1,T=2,G=3) -> mask (A=1,C=2,G=4,T=8)
fn enc_mask(b: usize) -> u8 {
    [1u8, 2, 8, 4][b]
}

fn tables(rt: &Runtime, rep: &mut StageReport) -> Vec<(serde_json::Value, String)> {
    let mut v = Vec::new();
    let mut n = 0u64;
    let mut nt = 0u64;
    // 0. the union update as builds perform it: every set of bases x every added base
    for set in 1u8..16 {
        for extra in 0..4usize {
            n += 1;
            rep.nontrivial_keys.insert(key_of(&("union_build", set, extra)));
            let expected = code_of_mask(set | [1u8, 2, 4, 8][extra]);
            match union_through_build(rt, set, extra, (set as usize) * 4 + extra) {
                Ok(got) if got == expected => {}
                Ok(got) => v.push((
                    json!({"route":"SkaDict","observed_set":code_of_mask(set) as char,"added_base":model::BASES[extra] as char}),
                    format!("a split k-mer observed with the bases of {:?} and then {:?}: stored {:?}, expected {:?}", code_of_mask(set) as char, model::BASES[extra] as char, got as char, expected as char),
                )),
                Err(e) => v.push((json!({"route":"SkaDict","set":set,"extra":extra}), format!("union through a build failed: {e}"))),
            }
        }
    }
    rep.class("union_through_build_cells", 60);
    let have_union = iupac_cell(0).is_some();
    let have_rc = rc_cell(0).is_some();
    if !have_union {
        rep.class("IUPAC_table_not_exposed_by_this_tree(union decided through builds only)", 1);
    }
    if !have_rc {
        rep.class("RC_IUPAC_table_not_exposed_by_this_tree", 1);
    }
    #[allow(non_snake_case)]
    let IUPAC = |i: usize| iupac_cell(i).unwrap_or(0);
    #[allow(non_snake_case)]
    let RC_IUPAC = |i: usize| rc_cell(i).unwrap_or(0);
    // 1. union table, all 4 x 256 cells
    for b in (0..4usize).filter(|_| have_union) {
        for c in 0..256usize {
            let up = (c as u8).to_ascii_uppercase();
            let is_letter_code = (c as u8).is_ascii_alphabetic() && mask_of_code(up).is_some();
            let expected = if is_letter_code {
                code_of_mask(mask_of_code(up).unwrap() | enc_mask(b))
            } else {
                0
            };
            let got = IUPAC(b * 256 + c);
            n += 1;
            if is_letter_code {
                nt += 1;
                rep.nontrivial_keys.insert(key_of(&("iupac", b, c)));
            }
            if got != expected {
                v.push((
                    json!({"table":"IUPAC","new_base_encoded":b,"existing_byte":c}),
                    format!(
                        "IUPAC[{}*256+{:?}] = {:?}, expected {:?} (code of the enlarged set)",
                        b, c as u8 as char, got as char, expected as char
                    ),
                ));
            }
        }
    }
    rep.class("iupac_cells", 1024);
    // 2. induced update is commutative and idempotent (order / multiplicity independence)
    for c in CODES.into_iter().filter(|_| have_union) {
        for b1 in 0..4usize {
            for b2 in 0..4usize {
                let x = IUPAC(b2 * 256 + IUPAC(b1 * 256 + c as usize) as usize);
                let y = IUPAC(b1 * 256 + IUPAC(b2 * 256 + c as usize) as usize);
                n += 1;
                rep.nontrivial_keys.insert(key_of(&("comm", c, b1, b2)));
                if x != y {
                    v.push((json!({"law":"commutative","code":c as char,"b1":b1,"b2":b2}), format!("adding bases {b1},{b2} to {} in the two orders gives {} / {}", c as char, x as char, y as char)));
                }
                let once = IUPAC(b1 * 256 + c as usize);
                let twice = IUPAC(b1 * 256 + once as usize);
                if once != twice {
                    v.push((json!({"law":"idempotent","code":c as char,"b":b1}), format!("adding base {b1} twice to {} gives {} then {}", c as char, once as char, twice as char)));
                }
            }
        }
    }
    rep.class("commutativity_idempotence", 15 * 16);
    // 3. complement table
    for c in (0..256usize).filter(|_| have_rc) {
        let ch = c as u8;
        let up = ch.to_ascii_uppercase();
        let got = RC_IUPAC(c);
        n += 1;
        if ch.is_ascii_alphabetic() && mask_of_code(up).is_some() {
            nt += 1;
            rep.nontrivial_keys.insert(key_of(&("rc", c)));
            let expected = code_of_mask(comp_mask(mask_of_code(up).unwrap()));
            if got != expected {
                v.push((json!({"table":"RC_IUPAC","byte":c}), format!("RC_IUPAC[{:?}] = {:?}, expected {:?}", ch as char, got as char, expected as char)));
            }
            if ch.is_ascii_uppercase() && RC_IUPAC(got as usize) != ch {
                v.push((json!({"table":"RC_IUPAC","byte":c,"law":"involution"}), format!("complementing {:?} twice gives {:?}", ch as char, RC_IUPAC(got as usize) as char)));
            }
        } else if ch == b'U' || ch == b'u' {
            // deliberately not asserted (never stored; table and comment disagree) — DESIGN §7
            rep.class("not_asserted_U", 1);
        } else if !ch.is_ascii_alphabetic() {
            if got != b'-' {
                v.push((json!({"table":"RC_IUPAC","byte":c}), format!("RC_IUPAC[{c}] = {:?}, expected '-' for a non-letter byte", got as char)));
            }
        }
    }
    for fixed in [b'S', b'W', b'N', b'-'].into_iter().filter(|_| have_rc) {
        n += 1;
        if RC_IUPAC(fixed as usize) != fixed {
            v.push((json!({"table":"RC_IUPAC","fixed_point":fixed as char}), format!("complement does not fix {:?}", fixed as char)));
        }
    }
    rep.class("rc_cells", 256);
    // 4. classification
    let mut syms: Vec<u8> = CODES.to_vec();
    syms.push(b'U');
    syms.push(b'-');
    for s in &syms {
        for ch in [*s, s.to_ascii_lowercase()] {
            n += 1;
            nt += 1;
            rep.nontrivial_keys.insert(key_of(&("amb", ch)));
            let up = ch.to_ascii_uppercase();
            let expected = !(matches!(up, b'A' | b'C' | b'G' | b'T' | b'U') || ch == b'-');
            if is_ambiguous(ch) != expected {
                v.push((json!({"fn":"is_ambiguous","byte":ch as char}), format!("is_ambiguous({:?}) = {}, expected {}", ch as char, is_ambiguous(ch), expected)));
            }
        }
    }
    rep.class("is_ambiguous_cells", 2 * syms.len() as u64);
    // 5. distance weights (upper-case symbols; order of the vector is A,C,T,G)
    for s in &syms {
        n += 1;
        nt += 1;
        rep.nontrivial_keys.insert(key_of(&("prob", *s)));
        let p = base_to_prob(*s);
        let m: u8 = match *s {
            b'U' => 8,
            b'N' | b'-' => 0,
            c => mask_of_code(c).unwrap(),
        };
        let sz = m.count_ones() as f64;
        let bits = [1u8, 2, 8, 4]; // A C T G
        for i in 0..4 {
            let e = if m & bits[i] != 0 { 1.0 / sz } else { 0.0 };
            if (p[i] - e).abs() > 1e-12 {
                v.push((json!({"fn":"base_to_prob","symbol":*s as char}), format!("base_to_prob({:?}) = {:?}, expected uniform weight over the code's set (N and '-' carry none)", *s as char, p)));
                break;
            }
        }
    }
    rep.class("base_to_prob_cells", syms.len() as u64);
    // 6. 2-bit encoding of bases
    for (ch, e) in [(b'A', 0u8), (b'C', 1), (b'T', 2), (b'G', 3), (b'U', 2)] {
        for c in [ch, ch.to_ascii_lowercase()] {
            n += 1;
            if encode_base(c) != e {
                v.push((json!({"fn":"encode_base","byte":c as char}), format!("encode_base({:?}) = {}, expected {e}", c as char, encode_base(c))));
            }
        }
        if ch != b'U' {
            if decode_base(e) != ch {
                v.push((json!({"fn":"decode_base","code":e}), format!("decode_base({e}) = {:?}", decode_base(e) as char)));
            }
            let r = decode_base(rc_base(e));
            if r != model::comp(ch) {
                v.push((json!({"fn":"rc_base","code":e}), format!("rc_base({e}) decodes to {:?}, expected {:?}", r as char, model::comp(ch) as char)));
            }
        }
    }
    rep.class("encode_cells", 10);
    rep.evaluations = n;
    let _ = nt;
    rep.exhaustive = Some(true);
    rep.samples.push(json!({"IUPAC": "A + Y -> H", "cell": IUPAC(b'Y' as usize) as char}));
    rep.samples.push(json!({"RC_IUPAC": "B -> V", "cell": RC_IUPAC(b'B' as usize) as char}));
    v
}

/// observation sequences on one repeated split k-mer through SkaDict
#[derive(Clone, Debug, Serialize, Deserialize)]
pub struct ObsCase {
    pub k: usize,
    pub rc: bool,
    pub arm: Vec<u8>,
    pub self_rc: bool,
    /// (middle base 0..4, observed on the reverse strand)
    pub obs: Vec<(u8, bool)>,
    pub one_record: bool,
}

fn obs_strategy() -> BoxedStrategy<ObsCase> {
    gen::k_strategy()
        .prop_flat_map(|k| {
            (
                Just(k),
                any::<bool>(),
                proptest::collection::vec(0u8..4, k - 1),
                prop::bool::weighted(0.25),
                proptest::collection::vec((0u8..4, any::<bool>()), 1..8),
                any::<bool>(),
            )
        })
        .prop_map(|(k, rc, arm, self_rc, obs, one_record)| ObsCase { k, rc, arm, self_rc, obs, one_record })
        .boxed()
}

fn obs_windows(c: &ObsCase) -> Vec<Vec<u8>> {
    let h = (c.k - 1) / 2;
    let arm = gen::bases_to_seq(&c.arm);
    let (left, right): (Vec<u8>, Vec<u8>) = if c.self_rc {
        (arm[..h].to_vec(), model::revcomp(&arm[..h]))
    } else {
        (arm[..h].to_vec(), arm[h..].to_vec())
    };
    c.obs
        .iter()
        .map(|(m, rev)| {
            let mut w = left.clone();
            w.push(model::BASES[*m as usize]);
            w.extend_from_slice(&right);
            if *rev && c.rc {
                model::revcomp(&w)
            } else {
                w
            }
        })
        .collect()
}

fn check_obs(c: &ObsCase, ctx: &Ctx) -> Outcome {
    use ska::ska_dict::SkaDict;
    use ska::{QualFilter, QualOpts};
    let wins = obs_windows(c);
    // records: one window per record, or all joined by N in one record
    let recs: Vec<Vec<u8>> = if c.one_record {
        vec![wins.join(&b'N')]
    } else {
        wins.clone()
    };
    let exp = model::build_sample(&recs, c.k, c.rc);
    // the union the property talks about
    let canon0 = model::canon(&wins[0], c.rc);
    let mut mask = 0u8;
    for w in &wins {
        let cn = model::canon(w, c.rc);
        mask |= model::base_mask(cn.middle);
        if cn.self_rc {
            mask |= model::base_mask(model::comp(cn.middle));
        }
    }
    let dir = ctx.case_dir();
    // a third of the cases present the observations as reads: every window is a read that occurs
    // min-count times (rounds interleaved, so that the bases alternate), with the count filter on
    let as_reads = c.obs.len() % 3 == 0;
    let min_count: u16 = if as_reads { [1u16, 2, 3, 5][c.k / 2 % 4] } else { 1 };
    let f = dir.join(if as_reads { "o.fastq" } else { "o.fa" });
    if as_reads {
        let mut reads: Vec<(Vec<u8>, Vec<u8>)> = Vec::new();
        for _ in 0..min_count {
            for w in &wins {
                reads.push((w.clone(), vec![b'I'; w.len()]));
            }
        }
        cli::write_fastq(&f, &reads);
    } else {
        cli::write_fasta_auto(&f, &recs, None);
    }
    let q = QualOpts { min_count, min_qual: 0, qual_filter: QualFilter::NoFilter };
    let path = cli::p(&f);
    let res = std::panic::catch_unwind(std::panic::AssertUnwindSafe(|| {
        let d = SkaDict::<u128>::new(c.k, 0, (&path, None), "s", c.rc, &q, None);
        d.kmers().iter().map(|(k2, v)| (model::unpack_arms(*k2, c.k), *v)).collect::<Vec<_>>()
    }));
    ctx.done(&dir);
    let got = match res {
        Ok(g) => g,
        Err(_) => return Outcome::Fail(format!("SkaDict::new panicked on windows {:?}", wins.iter().map(|w| lossy(w)).collect::<Vec<_>>())),
    };
    let stored = got.iter().find(|(a, _)| *a == canon0.arms).map(|(_, v)| *v);
    let expected = code_of_mask(mask);
    if stored != Some(expected) || got.len() != exp.len() {
        return Outcome::Fail(format!(
            "k={} rc={} observations {:?}: stored {:?}, expected {:?} (code of the union); dictionary size {} expected {}",
            c.k, c.rc, wins.iter().map(|w| lossy(w)).collect::<Vec<_>>(), stored.map(|b| b as char), expected as char, got.len(), exp.len()
        ));
    }
    let mut classes = vec![];
    if mask.count_ones() >= 3 { classes.push("union>=3"); }
    if as_reads { classes.push("as_fastq_reads_with_count_filter"); }
    if as_reads && min_count >= 3 { classes.push("min_count>=3"); }
    if c.self_rc && c.rc { classes.push("self_rc"); }
    if c.obs.iter().any(|o| o.1) && c.rc { classes.push("both_strands"); }
    pass(c.obs.len() >= 2, key_of(&(c.k, c.rc, &wins)), classes)
}

// ---- U is a base, not an ambiguity code: --ambig-mask must leave it alone ----

#[derive(Clone, Debug, Serialize, Deserialize)]
pub struct UCase {
    pub k: usize,
    pub rc: bool,
    pub reference: Vec<u8>,
    /// cyclic mask: which T's of the reference are written as U (upper or lower case)
    pub u_mask: Vec<u8>,
    pub snps: Vec<(u16, u8)>,
}

fn u_strategy() -> BoxedStrategy<UCase> {
    (prop::sample::select(vec![7usize, 9, 15, 17, 31, 33]), any::<bool>(), proptest::collection::vec(0u8..4, 70..220), proptest::collection::vec(0u8..3, 1..7), proptest::collection::vec((any::<u16>(), 0u8..4), 0..4))
        .prop_map(|(k, rc, reference, u_mask, snps)| UCase { k, rc, reference, u_mask, snps })
        .boxed()
}

fn check_u(c: &UCase, ctx: &Ctx) -> Outcome {
    let dna = gen::bases_to_seq(&c.reference);
    if dna.len() < c.k + 2 {
        return Outcome::Reject("short".into());
    }
    // the reference as RNA-style text: some T's written U or u
    let mut rna = dna.clone();
    let mut n_u = 0;
    for (i, b) in rna.iter_mut().enumerate() {
        if *b == b'T' {
            match c.u_mask[i % c.u_mask.len()] {
                1 => { *b = b'U'; n_u += 1; }
                2 => { *b = b'u'; n_u += 1; }
                _ => {}
            }
        }
    }
    // one sample: the reference with a few substitutions (plain DNA letters, no ambiguity anywhere)
    let mut smp = dna.clone();
    for (ps, b) in &c.snps {
        let p = gen::idx(*ps, smp.len());
        smp[p] = model::BASES[*b as usize & 3];
    }
    let dir = ctx.case_dir();
    let r: Result<bool, Outcome> = (|| {
        cli::write_fasta(&dir.join("ref.fa"), &["rna_ref".to_string()], &[rna.clone()], None);
        must_ok(&build(ctx, &dir, "x", &[("smp".to_string(), vec![smp.clone()])], c.k, c.rc, 1), "ska build")?;
        let plain = cli::run_ska(ctx, &dir, &["map", "ref.fa", "x.skf"]);
        let masked = cli::run_ska(ctx, &dir, &["map", "ref.fa", "x.skf", "--ambig-mask"]);
        for o in [&plain, &masked] {
            if let Some(e) = o.infra() {
                return Err(Outcome::Infra(e));
            }
        }
        if plain.ok() != masked.ok() {
            return Err(Outcome::Fail(format!("ska map succeeds {} without and {} with --ambig-mask", plain.ok(), masked.ok())));
        }
        if !plain.ok() {
            return Ok(false);
        }
        // repeats inside the sample can still produce ambiguity codes (or N): such cases say nothing about U
        let body: Vec<u8> = plain.out_str().lines().filter(|l| !l.starts_with('>')).flat_map(|l| l.bytes().collect::<Vec<u8>>()).collect();
        if body.iter().any(|b| !matches!(b.to_ascii_uppercase(), b'A' | b'C' | b'G' | b'T' | b'U' | b'-')) {
            return Err(Outcome::Reject("the sample itself yields an ambiguity code".into()));
        }
        if plain.stdout != masked.stdout {
            return Err(Outcome::Fail(format!("--ambig-mask changes the mapped alignment although neither the reference (A/C/G/T/U) nor the sample holds an ambiguity code:\n  without: {}\n  with:    {}", plain.out_str().replace('\n', " "), masked.out_str().replace('\n', " "))));
        }
        Ok(n_u > 0)
    })();
    ctx.done(&dir);
    match r {
        Err(Outcome::Fail(m)) => Outcome::Fail(format!("k={} rc={} reference={} sample={}: {m}", c.k, c.rc, lossy(&rna), lossy(&smp))),
        Err(o) => o,
        Ok(nt) => pass(nt, key_of(&(c.k, c.rc, &rna, &smp)), vec![if nt { "reference_with_U" } else { "no_U_or_nothing_maps" }]),
    }
}

// ---- the weights in use: pairwise distances over tables with ambiguity codes

fn weight_overlap(a: u8, b: u8) -> f64 {
    // uniform weight over the code's set; N and '-' carry no weight
    let set = |c: u8| -> u8 {
        match c {
            b'N' | b'-' => 0,
            x => mask_of_code(x).unwrap_or(0),
        }
    };
    let (sa, sb) = (set(a), set(b));
    if sa == 0 || sb == 0 {
        return 0.0;
    }
    (sa & sb).count_ones() as f64 / (sa.count_ones() as f64 * sb.count_ones() as f64)
}

fn check_weights(c: &TableCase, _ctx: &Ctx) -> Outcome {
    let t = c.table();
    let n = t.nsamples();
    if n < 2 {
        return pass(false, 0, vec!["single_sample"]);
    }
    let r = std::panic::catch_unwind(std::panic::AssertUnwindSafe(|| {
        if c.k <= 31 {
            make_array::<u64>(&t, c.k, c.rc, false).map(|a| a.distance(0.0))
        } else {
            make_array::<u128>(&t, c.k, c.rc, false).map(|a| a.distance(0.0))
        }
    }));
    let d = match r {
        Ok(Ok(d)) => d,
        Ok(Err(e)) => return Outcome::Infra(e),
        Err(e) => return Outcome::Fail(format!("distance() panicked: {}", panic_msg(&e))),
    };
    let mut shared_code = false;
    for i in 0..n {
        for j in (i + 1)..n {
            let mut exp = 0.0;
            for row in t.rows.values() {
                let (a, b) = (row[i], row[j]);
                if a != b'-' && b != b'-' {
                    exp += 1.0 - weight_overlap(a, b);
                    if a == b && model::sym_is_ambig(a) {
                        shared_code = true;
                    }
                }
            }
            let got = d.get(i).and_then(|v| v.get(j - i - 1)).map(|x| x.0);
            match got {
                Some(g) if (g - exp).abs() <= 1e-9 * (1.0 + exp.abs()) => {}
                other => {
                    return Outcome::Fail(format!(
                        "distance between columns {i} and {j} is {:?}, expected {exp} (sum over shared k-mers of 1 - overlap of uniform weights over each code's set; N carries none); rows={:?}",
                        other,
                        t.rows.values().map(|r| lossy(r)).collect::<Vec<_>>()
                    ))
                }
            }
        }
    }
    pass(shared_code, key_of(&(c.k, t.rows.values().collect::<Vec<_>>())), if shared_code { vec!["pair_sharing_an_ambiguity_code"] } else { vec![] })
}

/// the same weights through the command line: `ska distance --allow-ambiguous --min-freq 0`
fn check_weights_cli(c: &TableCase, ctx: &Ctx) -> Outcome {
    let t = c.table();
    let n = t.nsamples();
    if n < 2 {
        return pass(false, 0, vec!["single_sample"]);
    }
    let dir = ctx.case_dir();
    let r: Result<bool, Outcome> = (|| {
        let res = if c.k <= 31 { save_table::<u64>(&t, c.k, c.rc, &dir.join("t.skf"), false) } else { save_table::<u128>(&t, c.k, c.rc, &dir.join("t.skf"), false) };
        res.map_err(Outcome::Infra)?;
        let o = crate::cli::run_ska(ctx, &dir, &["distance", "t.skf", "--allow-ambiguous", "--min-freq", "0"]);
        must_ok(&o, "ska distance --allow-ambiguous")?;
        // rows whose symbols are all identical are "constant sites": removed before the pairwise sums
        let rows: Vec<&Vec<u8>> = t.rows.values().filter(|r| r.iter().any(|b| *b != r[0])).collect();
        let mut exp = Vec::new();
        let mut shared_code = false;
        for i in 0..n {
            for j in (i + 1)..n {
                let mut d = 0.0;
                for row in &rows {
                    let (a, b) = (row[i], row[j]);
                    if a != b'-' && b != b'-' {
                        d += 1.0 - weight_overlap(a, b);
                        if a == b && model::sym_is_ambig(a) {
                            shared_code = true;
                        }
                    }
                }
                exp.push((t.names[i].clone(), t.names[j].clone(), d));
            }
        }
        let out = o.out_str();
        let lines: Vec<&str> = out.lines().skip(1).collect();
        if lines.len() != exp.len() {
            return Err(Outcome::Fail(format!("{} lines for {} pairs", lines.len(), exp.len())));
        }
        for (l, (a, b, d)) in lines.iter().zip(exp.iter()) {
            let f: Vec<&str> = l.split('\t').collect();
            let got: f64 = f.get(2).and_then(|x| x.parse().ok()).unwrap_or(f64::NAN);
            // printed with two decimals
            if f.len() != 4 || f[0] != a || f[1] != b || !((got - d).abs() <= 0.0051) {
                return Err(Outcome::Fail(format!("line {l:?}: expected pair {a} {b} with distance {d:.4} (sum over shared, non-constant k-mers of 1 - overlap of uniform weights)")));
            }
        }
        Ok(shared_code)
    })();
    ctx.done(&dir);
    match r {
        Err(Outcome::Fail(m)) => Outcome::Fail(format!("k={} rows={:?}: {m}", c.k, t.rows.values().map(|r| lossy(r)).collect::<Vec<_>>())),
        Err(o) => o,
        Ok(shared) => pass(shared, key_of(&(c.k, t.rows.values().collect::<Vec<_>>(), "cli")), if c.k >= 33 { vec!["128bit"] } else { vec![] }),
    }
}

fn stages(tier: Tier) -> Vec<Box<dyn Stage>> {
    vec![
        enum_stage(
            "tables",
            "complete enumeration: the union update as builds perform it (15 base sets x 4 added bases, each through SkaDict on a k=7 single-strand sample), IUPAC 4x256 cells (when the tree exposes the table; harness/build.rs probes the source), commutativity/idempotence 15x4x4, RC_IUPAC 256 cells (U/u and non-code letters not asserted), is_ambiguous and base_to_prob over the 15 codes + U + '-' (both cases for classification), encode/decode/rc of bases; distinct non-trivial = cells that belong to an IUPAC code",
            tables,
        ),
        gen_stage_show(
            "observations",
            "generated: one split k-mer observed 1..7 times with arbitrary middle bases on either strand (25% self-reverse-complement arms), as separate records or N-joined, a third of the cases as FASTQ reads repeated min-count times (1, 2, 3 or 5) with the count filter on; stored code must be the code of the union. Non-trivial: >=2 observations; distinct by (k, strand, windows)",
            tier.pick(24_000, 400_000),
            500,
            obs_strategy,
            check_obs,
            |c| json!({"k": c.k, "two_strand": c.rc, "windows": obs_windows(c).iter().map(|w| lossy(w)).collect::<Vec<_>>()}),
        ),
        gen_stage_show(
            "weights_in_use",
            "generated: symbol tables with ambiguity codes (2-8 samples, 1-30 rows); MergeSkaArray::distance (the computation behind ska distance --allow-ambiguous) must give, for every pair, the sum over k-mers present in both samples of 1 - overlap of the two uniform weight vectors (N carries no weight). Non-trivial: some pair shares the same ambiguity code at a k-mer.",
            tier.pick(8000, 100_000),
            800,
            || table_case_strategy(8, 30, true),
            check_weights,
            |c| json!({"k": c.k, "rows": c.table().rows.values().take(8).map(|r| lossy(r)).collect::<Vec<_>>()}),
        ),
        gen_stage_show(
            "weights_through_cli",
            "the same tables through `ska distance --allow-ambiguous --min-freq 0` (k over 5..63, both integer widths): printed distance of every pair == model sum over shared non-constant k-mers (tolerance: two printed decimals). Non-trivial: some pair shares an ambiguity code.",
            tier.pick(1200, 16_000),
            150,
            || table_case_strategy(8, 30, true),
            check_weights_cli,
            |c| json!({"k": c.k, "rows": c.table().rows.values().take(8).map(|r| lossy(r)).collect::<Vec<_>>()}),
        ),
        gen_stage_show(
            "u_is_not_ambiguous",
            "generated: a reference of 70-220 bases in which some T's are written U or u, one sample = the reference as DNA with 0-3 substitutions (no ambiguity code anywhere), k in {7,9,15,17,31,33}, both strand modes; ska map with and without --ambig-mask. Cases in which the unmasked output already shows an ambiguity code or N (repeats inside the sample) are rejected and counted. Oracle (metamorphic): identical output - masking concerns ambiguity codes only, and U is a base. Non-trivial: the reference contains a U and something maps.",
            tier.pick(400, 6000),
            100,
            u_strategy,
            check_u,
            |c| json!({"k": c.k, "two_strand": c.rc, "reference_len": c.reference.len(), "snps": c.snps.len()}),
        ),
    ]
}

pub fn def() -> PropDef {
    PropDef {
        id: "C15",
        level: "exploration",
        assumptions: &[
            "RC_IUPAC['U'/'u'] and base_to_prob of lower-case letters are not asserted (never reachable from callers; DESIGN §7)",
            "set algebra spelled out as 4-bit masks in harness/src/model.rs",
        ],
        stages,
        post: None,
    }
}
