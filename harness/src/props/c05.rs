//! C05 — the VCF from map carries the same information as the mapped alignment.

use std::collections::BTreeMap;

use super::c04::{self, Case};
use super::common::*;
use super::PropDef;
use crate::engine::{gen_stage_show, key_of, pass, Ctx, Outcome, Stage, Tier};
use crate::model;

pub struct Vcf {
    pub contigs: Vec<String>,
    pub samples: Vec<String>,
    /// (chrom, pos) -> (ref, alts, genotypes, format)
    pub records: Vec<(String, usize, String, Vec<String>, Vec<String>, String)>,
}

pub fn parse_vcf(text: &str) -> Result<Vcf, String> {
    let mut v = Vcf { contigs: vec![], samples: vec![], records: vec![] };
    for l in text.lines() {
        if let Some(rest) = l.strip_prefix("##contig=<ID=") {
            v.contigs.push(rest.trim_end_matches('>').split(',').next().unwrap_or("").to_string());
        } else if l.starts_with("#CHROM") {
            v.samples = l.split('\t').skip(9).map(|s| s.to_string()).collect();
        } else if !l.starts_with('#') && !l.is_empty() {
            let f: Vec<&str> = l.split('\t').collect();
            if f.len() < 9 {
                return Err(format!("short VCF line: {l}"));
            }
            let pos: usize = f[1].parse().map_err(|_| format!("bad POS in {l}"))?;
            let alts: Vec<String> = if f[4] == "." { vec![] } else { f[4].split(',').map(|s| s.to_string()).collect() };
            v.records.push((f[0].to_string(), pos, f[3].to_string(), alts, f[9..].iter().map(|s| s.to_string()).collect(), f[8].to_string()));
        }
    }
    Ok(v)
}

/// the relation between the two formats; returns generator classes
fn relate(c: &Case, m: &c04::Mat, ctx: &Ctx, dir: &std::path::Path) -> Result<Vec<&'static str>, Outcome> {
        let aln = c04::run_map(ctx, dir, c, m, false)?;
        let vcf = c04::run_map(ctx, dir, c, m, true)?;
        if aln.refused != vcf.refused {
            return Err(Outcome::Fail(format!("-f aln {} but -f vcf {}", if aln.refused { "is refused" } else { "succeeds" }, if vcf.refused { "is refused" } else { "succeeds" })));
        }
        if aln.refused {
            return Ok(vec!["both_refused"]);
        }
        let v = parse_vcf(&vcf.stdout).map_err(Outcome::Fail)?;
        let cnames = c04::contig_names(&m.reference);
        if v.contigs != cnames {
            return Err(Outcome::Fail(format!("##contig lines {:?}, reference contigs {:?}", v.contigs, cnames)));
        }
        if v.samples != aln.names {
            return Err(Outcome::Fail(format!("VCF sample columns {:?}, alignment order {:?}", v.samples, aln.names)));
        }
        // expected records from the alignment
        let mut exp: BTreeMap<(usize, usize), (u8, Vec<u8>)> = BTreeMap::new();
        let mut off = 0;
        for (ci, ctg) in m.reference.iter().enumerate() {
            for p in 0..ctg.len() {
                let rb = ctg[p].to_ascii_uppercase();
                let col: Vec<u8> = aln.seqs.iter().map(|s| s[off + p]).collect();
                if col.iter().any(|x| *x != rb) {
                    exp.insert((ci, p + 1), (if model::is_acgt(rb) { rb } else { b'N' }, col));
                }
            }
            off += ctg.len();
        }
        let cindex: std::collections::HashMap<&str, usize> = cnames.iter().enumerate().map(|(i, n)| (n.as_str(), i)).collect();
        let mut seen: BTreeMap<(usize, usize), ()> = BTreeMap::new();
        let mut last: Option<(usize, usize)> = None;
        let mut multi = false;
        for (chrom, pos, refb, alts, gts, fmt) in &v.records {
            let Some(ci) = cindex.get(chrom.as_str()).copied() else {
                return Err(Outcome::Fail(format!("record on unknown contig {chrom}")));
            };
            let key = (ci, *pos);
            if seen.insert(key, ()).is_some() {
                return Err(Outcome::Fail(format!("two records at {chrom}:{pos}")));
            }
            if let Some(l) = last {
                if key <= l {
                    return Err(Outcome::Fail(format!("records out of order at {chrom}:{pos}")));
                }
            }
            last = Some(key);
            let Some((erb, col)) = exp.get(&key) else {
                return Err(Outcome::Fail(format!("record at {chrom}:{pos} although every sample shows the reference base there")));
            };
            if refb.as_bytes() != [*erb] {
                return Err(Outcome::Fail(format!("{chrom}:{pos} REF={refb}, reference base is {}", *erb as char)));
            }
            if fmt != "GT" {
                return Err(Outcome::Fail(format!("{chrom}:{pos} FORMAT={fmt}")));
            }
            let mut a2 = alts.clone();
            a2.sort();
            a2.dedup();
            if a2.len() != alts.len() {
                return Err(Outcome::Fail(format!("{chrom}:{pos} ALT alleles not distinct: {alts:?}")));
            }
            if alts.len() >= 2 {
                multi = true;
            }
            if gts.len() != col.len() {
                return Err(Outcome::Fail(format!("{chrom}:{pos} has {} genotype columns for {} samples", gts.len(), col.len())));
            }
            let mut alleles: Vec<String> = vec![refb.clone()];
            alleles.extend(alts.iter().cloned());
            for (si, (gt, x)) in gts.iter().zip(col.iter()).enumerate() {
                if *x == b'-' {
                    if gt != "." {
                        return Err(Outcome::Fail(format!("{chrom}:{pos} sample {si}: aligned '-' but GT={gt}")));
                    }
                } else {
                    let want = if model::is_acgt(*x) { (*x as char).to_string() } else { "N".to_string() };
                    let dec = gt.parse::<usize>().ok().and_then(|i| alleles.get(i).cloned());
                    if dec.as_deref() != Some(want.as_str()) {
                        return Err(Outcome::Fail(format!("{chrom}:{pos} sample {si}: aligned {:?} but GT={gt} decodes to {:?} (REF={refb} ALT={alts:?})", *x as char, dec)));
                    }
                }
            }
        }
        if seen.len() != exp.len() {
            let missing: Vec<String> = exp.keys().filter(|k| !seen.contains_key(k)).take(4).map(|(c, p)| format!("{}:{}", cnames[*c], p)).collect();
            return Err(Outcome::Fail(format!("{} positions differ from the reference in the alignment but have no VCF record: {:?}", exp.len() - seen.len(), missing)));
        }
        let mut cl = vec![];
        if !exp.is_empty() { cl.push("has_records"); }
        if multi { cl.push(">=3_alleles"); }
        if m.reference.len() >= 2 { cl.push("multi_contig"); }
        if m.samples.len() >= 9 { cl.push(">=9_samples"); }
        if m.reference.iter().any(|r| r.is_empty()) { cl.push("empty_contig"); }
        if m.reference.iter().any(|r| r.iter().any(|b| matches!(b, b'N' | b'n'))) { cl.push("N_in_reference"); }
        if m.reference.iter().any(|r| r.iter().any(|b| b.is_ascii_lowercase())) { cl.push("lower_case_reference"); }
        if c.ambig_mask || c.repeat_mask { cl.push("masked"); }
        if exp.values().any(|(_, col)| col.iter().any(|x| model::sym_is_ambig(*x))) { cl.push("ambiguity_in_column"); }
        Ok(cl)
}

fn check(c: &Case, ctx: &Ctx) -> Outcome {
    // (sample names unique: a VCF header cannot hold two samples of one name)
    let m = c04::materialise_unique_names(c);
    let dir = ctx.case_dir();
    let r = relate(c, &m, ctx, &dir);
    ctx.done(&dir);
    match r {
        Err(Outcome::Fail(msg)) => Outcome::Fail(format!(
            "k={} rc={} ambig_mask={} repeat_mask={} reference={:?} samples={}: {msg}",
            c.k, c.rc, c.ambig_mask, c.repeat_mask, m.reference.iter().map(|r| lossy(r)).collect::<Vec<_>>(), show_samples(&m.samples)
        )),
        Err(o) => o,
        Ok(cl) => pass(cl.contains(&"has_records"), key_of(&(c.k, c.rc, c.ambig_mask, c.repeat_mask, &m.reference, &m.samples)), cl),
    }
}

fn check_large(lc: &c04::LargeCase, ctx: &Ctx) -> Outcome {
    let (c, m) = c04::large_materialise(lc);
    let dir = ctx.case_dir();
    let r = relate(&c, &m, ctx, &dir);
    ctx.done(&dir);
    match r {
        Err(Outcome::Fail(msg)) => Outcome::Fail(format!("k={} rc={} content_seed={} contigs={} first/last lengths=[{}, {}] snps={:?} ambig_mask={} repeat_mask={}: {msg}", c.k, c.rc, lc.content_seed, m.reference.len(), m.reference[0].len(), m.reference[m.reference.len() - 1].len(), lc.snps, c.ambig_mask, c.repeat_mask)),
        Err(o) => o,
        Ok(cl) => pass(cl.contains(&"has_records"), key_of(&(c.k, c.rc, lc.content_seed, lc.extra, lc.second_len, &lc.snps, lc.many_contigs)), cl),
    }
}

const RULE: &str = "differential between the tool's two output formats on C04's generator (same inputs and flags): parse ska map -f vcf and -f aln; a record at (contig, 1-based pos) iff some sample's aligned character differs from the upper-case reference base; REF = reference base (N if not ACGT); ALT distinct; every genotype decodes through REF/ALT to the aligned character ('.' for '-', N for ambiguity codes); ##contig order/names and sample columns as in the inputs; no duplicate or out-of-order records. Non-trivial: >=1 record.";

fn stages(tier: Tier) -> Vec<Box<dyn Stage>> {
    vec![
        gen_stage_show("vcf_vs_aln", RULE, tier.pick(3200, 40_000), 250, c04::case_strategy, check, c04::show),
        gen_stage_show("large_reference", "same relation on references longer than 65536 bases (random first contig of 65300-67300 bases + a short second contig, two samples with substitutions concentrated around concatenated position 65536 and in the second contig; content a pure function of content_seed). Non-trivial: >= 1 record.", tier.pick(16, 320), 10, c04::large_strategy, check_large, |c| serde_json::json!({"first_contig": 65_300 + c.extra as usize, "second_contig": c.second_len, "snps": c.snps.len()})),
    ]
}

pub fn def() -> PropDef {
    PropDef {
        id: "C05",
        level: "exploration",
        assumptions: &["the alignment itself is checked against the model by C04; here only the relation between the two formats", "contig names [A-Za-z0-9_]+ (valid VCF contig IDs)"],
        stages,
        post: None,
    }
}
