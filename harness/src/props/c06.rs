//! C06 — align emits exactly the k-mer columns that pass the requested filters.

use proptest::prelude::*;
use serde::{Deserialize, Serialize};
use serde_json::json;

use super::common::*;
use super::PropDef;
use crate::cli::{self, run_ska};
use crate::engine::{gen_stage_show, key_of, pass, Ctx, Outcome, Stage, Tier};
use crate::model::{self, FilterKind, FilterSpec, Table};

#[derive(Clone, Debug, Serialize, Deserialize)]
pub struct Flags {
    pub kind: FilterKind,
    pub ambig_as_missing: bool,
    pub ambig_mask: bool,
    pub no_gap_only: bool,
    pub freq: Freq,
}

#[derive(Clone, Debug, Serialize, Deserialize)]
pub struct Case {
    pub t: TableCase,
    pub flags: Flags,
    /// which way to make the second setting stricter (0..5)
    pub stricter: u8,
    pub freq2: Freq,
}

pub fn kind_strategy() -> BoxedStrategy<FilterKind> {
    prop::sample::select(vec![FilterKind::NoFilter, FilterKind::NoConst, FilterKind::NoAmbig, FilterKind::NoAmbigOrConst]).boxed()
}

pub fn flags_strategy() -> BoxedStrategy<Flags> {
    (kind_strategy(), any::<bool>(), any::<bool>(), any::<bool>(), freq_strategy())
        .prop_map(|(kind, ambig_as_missing, ambig_mask, no_gap_only, freq)| Flags { kind, ambig_as_missing, ambig_mask, no_gap_only, freq })
        .boxed()
}

fn case_strategy() -> BoxedStrategy<Case> {
    (table_case_strategy(12, 60, true), flags_strategy(), 0u8..5, freq_strategy())
        .prop_map(|(t, flags, stricter, freq2)| Case { t, flags, stricter, freq2 })
        .boxed()
}

pub fn spec(f: &Flags, n: usize) -> FilterSpec {
    FilterSpec {
        min_count: f.freq.ceil(n).max(1),
        kind: f.kind,
        ambig_as_missing: f.ambig_as_missing,
        ambig_mask: f.ambig_mask,
        no_gap_only: f.no_gap_only,
    }
}

fn stricter_of(c: &Case, n: usize) -> Flags {
    let mut g = c.flags.clone();
    match c.stricter % 5 {
        0 => {
            // higher threshold
            if c.freq2.ceil(n) >= g.freq.ceil(n) {
                g.freq = c.freq2;
            }
        }
        1 => {
            g.kind = match g.kind {
                FilterKind::NoConst => FilterKind::NoAmbigOrConst,
                FilterKind::NoFilter => FilterKind::NoAmbig,
                o => o,
            }
        }
        2 => g.no_gap_only = true,
        3 => g.ambig_as_missing = true,
        _ => {
            g.kind = match g.kind {
                // (no-ambig-or-const is NOT a subset of no-ambig: it keeps rows with codes)
                FilterKind::NoFilter => FilterKind::NoConst,
                o => o,
            }
        }
    }
    g
}

pub fn align_args(f: &Flags, n: usize) -> Vec<String> {
    let mut a = vec!["--filter".to_string(), f.kind.cli().to_string(), "--min-freq".to_string(), f.freq.arg(n)];
    if f.ambig_as_missing {
        a.push("--filter-ambig-as-missing".into());
    }
    if f.ambig_mask {
        a.push("--ambig-mask".into());
    }
    if f.no_gap_only {
        a.push("--no-gap-only-sites".into());
    }
    a
}

/// `ska weed` computes floor(n*f): only use f where n*f is an exact integer (DESIGN §7)
pub fn weed_freq(f: &Freq, n: usize) -> Freq {
    if f.exact(n) {
        return *f;
    }
    match f {
        Freq::Half(s) => {
            let r = Freq::Ratio(*s);
            if r.exact(n) {
                r
            } else {
                Freq::Zero
            }
        }
        Freq::Dyadic(m) => {
            let r = Freq::Ratio((*m as u16) << 13);
            if r.exact(n) {
                r
            } else {
                Freq::Zero
            }
        }
        _ => Freq::Zero,
    }
}

/// the filter `ska weed` applies for these flags, or None when it applies none
pub fn weed_filter_spec(fl: &Flags, n: usize) -> (Flags, Option<FilterSpec>) {
    let mut g = fl.clone();
    g.freq = weed_freq(&fl.freq, n);
    let threshold = g.freq.ceil(n);
    let applies = threshold > 0 || g.kind != FilterKind::NoFilter || g.ambig_mask || g.no_gap_only;
    if !applies {
        // --filter-ambig-as-missing alone requests nothing (it qualifies --min-freq)
        g.ambig_as_missing = false;
        return (g, None);
    }
    let sp = FilterSpec { min_count: threshold.max(1), kind: g.kind, ambig_as_missing: g.ambig_as_missing, ambig_mask: g.ambig_mask, no_gap_only: g.no_gap_only };
    (g, Some(sp))
}

pub fn weed_filter_args(g: &Flags, n: usize) -> Vec<String> {
    let mut a = vec!["--min-freq".to_string(), g.freq.arg(n), "--filter".to_string(), g.kind.cli().to_string()];
    if g.ambig_as_missing {
        a.push("--filter-ambig-as-missing".into());
    }
    if g.ambig_mask {
        a.push("--ambig-mask".into());
    }
    if g.no_gap_only {
        a.push("--no-gap-only-sites".into());
    }
    a
}

fn inproc_align<IntT>(t: &Table, k: usize, rc: bool, f: &Flags) -> Result<Vec<(String, Vec<u8>)>, String>
where
    IntT: for<'a> ska::ska_dict::bit_encoding::UInt<'a> + TryFrom<u128>,
{
    let n = t.nsamples();
    let mut arr = make_array::<IntT>(t, k, rc, false)?;
    let r = std::panic::catch_unwind(std::panic::AssertUnwindSafe(|| {
        ska::generic_modes::apply_filters(&mut arr, f.freq.value(n), f.ambig_as_missing, &f.kind.lib(), f.ambig_mask, f.no_gap_only);
        let mut buf: Vec<u8> = Vec::new();
        arr.write_fasta(&mut buf).map_err(|e| e.to_string())?;
        Ok::<Vec<u8>, String>(buf)
    }));
    match r {
        Err(e) => Err(format!("panic: {}", panic_msg(&e))),
        Ok(Err(e)) => Err(e),
        Ok(Ok(buf)) => Ok(model::parse_fasta(&String::from_utf8_lossy(&buf))),
    }
}

/// compare an alignment with the model's filtered table
pub fn compare_align(aln: &[(String, Vec<u8>)], t: &Table, sp: &FilterSpec) -> Result<(usize, usize), String> {
    let names: Vec<String> = aln.iter().map(|(n, _)| n.clone()).collect();
    if names != t.names {
        return Err(format!("alignment names {:?}, expected {:?}", names, t.names));
    }
    let got = model::aln_columns(aln)?;
    let filtered = t.filter(sp);
    let exp = filtered.columns();
    if got != exp {
        let extra: Vec<String> = multiset_minus(&got, &exp).iter().take(4).map(|c| lossy(c)).collect();
        let missing: Vec<String> = multiset_minus(&exp, &got).iter().take(4).map(|c| lossy(c)).collect();
        return Err(format!("{} columns emitted, model says {}; columns not allowed by the filter: {:?}; passing columns not emitted: {:?}", got.len(), exp.len(), extra, missing));
    }
    let masked = if sp.ambig_mask { t.rows.values().flatten().filter(|b| model::sym_is_ambig(**b) && **b != b'N').count() } else { 0 };
    Ok((exp.len(), masked))
}

pub fn multiset_minus(a: &[Vec<u8>], b: &[Vec<u8>]) -> Vec<Vec<u8>> {
    // both sorted
    let mut out = Vec::new();
    let (mut i, mut j) = (0, 0);
    while i < a.len() {
        if j >= b.len() || a[i] < b[j] {
            out.push(a[i].clone());
            i += 1;
        } else if a[i] == b[j] {
            i += 1;
            j += 1;
        } else {
            j += 1;
        }
    }
    out
}

fn check(c: &Case, ctx: &Ctx, via_cli: bool) -> Outcome {
    let t = c.t.table();
    let n = t.nsamples();
    let (k, rc) = (c.t.k, c.t.rc);
    let strict = stricter_of(c, n);
    let dir = if via_cli { Some(ctx.case_dir()) } else { None };
    let mut outputs = Vec::new();
    let r: Result<(usize, usize), Outcome> = (|| {
        if let Some(d) = &dir {
            let res = if k <= 31 { save_table::<u64>(&t, k, rc, &d.join("t.skf"), false) } else { save_table::<u128>(&t, k, rc, &d.join("t.skf"), false) };
            res.map_err(Outcome::Infra)?;
        }
        // a third of the command-line cases: the input is a suffix-less file `t` (what `ska weed -o t` leaves
        // behind) sitting next to a `t.skf` that holds a different table; the file that was named is the input
        let bare = dir.is_some() && t.rows.len() >= 2 && (t.rows.len() + 2 * n + k / 2) % 3 == 0;
        if let (true, Some(d)) = (bare, &dir) {
            std::fs::rename(d.join("t.skf"), d.join("t")).map_err(|e| Outcome::Infra(e.to_string()))?;
            let decoy = Table { names: t.names.clone(), rows: t.rows.iter().step_by(2).map(|(a, b)| (a.clone(), b.clone())).collect() };
            let res = if k <= 31 { save_table::<u64>(&decoy, k, rc, &d.join("t.skf"), false) } else { save_table::<u128>(&decoy, k, rc, &d.join("t.skf"), false) };
            res.map_err(Outcome::Infra)?;
        }
        let mut first = (0, 0);
        for (i, f) in [&c.flags, &strict].iter().enumerate() {
            let aln = if let Some(d) = &dir {
                let mut args: Vec<String> = vec!["align".into()];
                args.extend(align_args(f, n));
                // thread counts: none, a few, or far more than this machine has cores (a script written elsewhere)
                match (t.rows.len() + 3 * n + i) % 6 {
                    1 => args.extend(["--threads".to_string(), "3".to_string()]),
                    4 => args.extend(["--threads".to_string(), "512".to_string()]),
                    _ => {}
                }
                args.push(if bare { "t".into() } else { "t.skf".into() });
                // half of the cases write to a file with -o instead of stdout
                let to_file = (t.rows.len() + n + i) % 2 == 1;
                if to_file {
                    // the output file already exists and is long: it must be replaced, not overwritten from the start
                    cli::plant_stale_output(&d.join("aln_out.fa"));
                    args.push("-o".into());
                    args.push("aln_out.fa".into());
                }
                let argv: Vec<&str> = args.iter().map(|s| s.as_str()).collect();
                let o = run_ska(ctx, d, &argv);
                must_ok(&o, &format!("ska {}", args.join(" ")))?;
                if to_file {
                    if !o.stdout.is_empty() {
                        return Err(Outcome::Fail(format!("ska {} wrote to stdout although -o was given", args.join(" "))));
                    }
                    model::parse_fasta(&std::fs::read_to_string(d.join("aln_out.fa")).map_err(|e| Outcome::Fail(format!("ska {} succeeded but the -o file is missing: {e}", args.join(" "))))?)
                } else {
                    model::parse_fasta(&o.out_str())
                }
            } else if k <= 31 {
                inproc_align::<u64>(&t, k, rc, f).map_err(Outcome::Fail)?
            } else {
                inproc_align::<u128>(&t, k, rc, f).map_err(Outcome::Fail)?
            };
            let res = compare_align(&aln, &t, &spec(f, n)).map_err(|m| Outcome::Fail(format!("flags {:?} (threshold {}): {m}", f, spec(f, n).min_count)))?;
            if i == 0 {
                first = res;
            }
            outputs.push(model::aln_columns(&aln).map_err(Outcome::Fail)?);
        }
        // metamorphic: stricter is a sub-multiset of laxer
        let not_in = multiset_minus(&outputs[1], &outputs[0]);
        if !not_in.is_empty() {
            return Err(Outcome::Fail(format!("stricter setting {:?} emitted columns that the laxer {:?} did not: {:?}", strict, c.flags, not_in.iter().take(3).map(|x| lossy(x)).collect::<Vec<_>>())));
        }
        Ok(first)
    })();
    if let Some(d) = &dir {
        ctx.done(d);
    }
    match r {
        Err(Outcome::Fail(m)) => Outcome::Fail(format!("k={k} names={:?} rows={:?}: {m}", t.names, t.rows.values().map(|r| lossy(r)).collect::<Vec<_>>())),
        Err(o) => o,
        Ok((kept, masked)) => {
            let removed = t.rows.len() - kept;
            let mut cl: Vec<&'static str> = vec![match c.flags.kind { FilterKind::NoFilter => "no-filter", FilterKind::NoConst => "no-const", FilterKind::NoAmbig => "no-ambig", FilterKind::NoAmbigOrConst => "no-ambig-or-const" }];
            if c.flags.ambig_as_missing { cl.push("ambig_as_missing"); }
            if c.flags.ambig_mask { cl.push("ambig_mask"); }
            if c.flags.no_gap_only { cl.push("no_gap_only"); }
            if removed > 0 && kept > 0 { cl.push("removes_and_keeps"); }
            if masked > 0 && kept > 0 { cl.push("masks_symbols"); }
            if c.flags.freq.ceil(n) >= 2 { cl.push("threshold>=2"); }
            pass((removed > 0 && kept > 0) || (masked > 0 && kept > 0), key_of(&(&c.flags, &t.names, t.rows.values().collect::<Vec<_>>())), cl)
        }
    }
}

// ---- the same tables reached through FASTA files and `ska build --single-strand`

fn check_fasta(c: &Case, ctx: &Ctx) -> Outcome {
    let mut t = c.t.table();
    let n = t.nsamples();
    let (k, h) = (c.t.k, (c.t.k - 1) / 2);
    // every sample needs at least one k-mer, otherwise ska build refuses it
    for j in 0..n {
        if t.rows.values().all(|r| r[j] == b'-') {
            if let Some(r) = t.rows.values_mut().next() {
                r[j] = b'A';
            }
        }
    }
    if t.rows.len() > 24 {
        let keep: Vec<Vec<u8>> = t.rows.keys().take(24).cloned().collect();
        t.rows.retain(|a, _| keep.contains(a));
        for j in 0..n {
            if t.rows.values().all(|r| r[j] == b'-') {
                if let Some(r) = t.rows.values_mut().next() {
                    r[j] = b'C';
                }
            }
        }
    }
    let samples: Vec<Sample> = (0..n)
        .map(|j| {
            let mut recs = Vec::new();
            for (arms, syms) in &t.rows {
                if let Some(m) = model::mask_of_code(syms[j]) {
                    for b in model::BASES {
                        if m & model::base_mask(b) != 0 {
                            let mut r = arms[..h].to_vec();
                            r.push(b);
                            r.extend_from_slice(&arms[h..]);
                            recs.push(r);
                        }
                    }
                }
            }
            (t.names[j].clone(), recs)
        })
        .collect();
    let dir = ctx.case_dir();
    let r: Result<(usize, usize), Outcome> = (|| {
        must_ok(&build(ctx, &dir, "x", &samples, k, false, 1), "ska build --single-strand")?;
        let got = nk(ctx, &dir, "x.skf")?;
        model::compare_nk(&got, &t, k, false, Some(k_bits_for(k))).map_err(|m| Outcome::Fail(format!("table built from the FASTA records differs from the intended table: {m}")))?;
        let mut args: Vec<String> = vec!["align".into()];
        args.extend(align_args(&c.flags, n));
        args.push("x.skf".into());
        let argv: Vec<&str> = args.iter().map(|s| s.as_str()).collect();
        let o = run_ska(ctx, &dir, &argv);
        must_ok(&o, &format!("ska {}", args.join(" ")))?;
        compare_align(&model::parse_fasta(&o.out_str()), &t, &spec(&c.flags, n)).map_err(|m| Outcome::Fail(format!("flags {:?} (threshold {}): {m}", c.flags, spec(&c.flags, n).min_count)))
    })();
    ctx.done(&dir);
    match r {
        Err(Outcome::Fail(m)) => Outcome::Fail(format!("k={k} names={:?} rows={:?}: {m}", t.names, t.rows.values().map(|r| lossy(r)).collect::<Vec<_>>())),
        Err(o) => o,
        Ok((kept, masked)) => {
            let removed = t.rows.len() - kept;
            let mut cl = vec![];
            if t.rows.values().flatten().any(|b| model::sym_is_ambig(*b)) { cl.push("ambiguity_codes_through_build"); }
            if k >= 33 { cl.push("128bit"); }
            pass((removed > 0 && kept > 0) || (masked > 0 && kept > 0), key_of(&(&c.flags, &t.names, t.rows.values().collect::<Vec<_>>(), "fasta")), cl)
        }
    }
}

// ---- wide and long tables: sample and row counts on block boundaries ----

#[derive(Clone, Debug, Serialize, Deserialize)]
pub struct BigCase {
    pub wide: bool,
    pub n_sel: u16,
    pub rows_sel: u16,
    pub salt: u64,
    pub stride: u16,
    pub pgap: u8,
    pub pamb: u8,
    pub flags: Flags,
    pub via_cli: bool,
}

fn big_strategy() -> BoxedStrategy<BigCase> {
    (any::<bool>(), any::<u16>(), any::<u16>(), any::<u64>(), any::<u16>(), 0u8..40, 0u8..30, flags_strategy(), prop::bool::weighted(0.25))
        .prop_map(|(wide, n_sel, rows_sel, salt, stride, pgap, pamb, flags, via_cli)| BigCase { wide, n_sel, rows_sel, salt, stride, pgap, pamb, flags, via_cli })
        .boxed()
}

fn big_dims(c: &BigCase) -> (usize, usize, usize) {
    const ROWS: [usize; 15] = [255, 256, 257, 1023, 1024, 1025, 2047, 2048, 2049, 4095, 4096, 4097, 8192, 65535, 65536];
    // one case in sixteen: very many samples (on and next to 2^16) and a few rows
    if c.stride % 16 == 5 {
        return (if c.wide { 35 } else { 17 }, [65_535usize, 65_536, 65_537, 70_001][c.n_sel as usize % 4], 12 + c.rows_sel as usize % 30);
    }
    // one case in sixteen: a long table of two samples that is constant except for two rows
    if c.stride % 16 == 9 {
        return (if c.wide { 35 } else { 17 }, 2, 70_000 + c.rows_sel as usize % 2000);
    }
    let rows = ROWS[crate::gen::idx(c.rows_sel, ROWS.len())];
    // the largest tables only with few samples (cost)
    let n = if rows >= 8192 { [8usize, 9, 15, 16, 17][c.n_sel as usize % 5] } else if c.n_sel % 2 == 0 { BOUNDARY_SAMPLES[crate::gen::idx(c.n_sel, BOUNDARY_SAMPLES.len())] } else { 2 + crate::gen::idx(c.n_sel, 129) };
    (if c.wide { 35 } else { 17 }, n, rows)
}

fn check_big(c: &BigCase, ctx: &Ctx) -> Outcome {
    let (k, n, rows) = big_dims(c);
    let mut t = big_symbol_table(k, n, rows, c.salt, c.pgap, c.pamb, c.stride);
    let sparse = c.stride % 16 == 9;
    if sparse {
        // two rows share a symbol (R) that occurs nowhere else (in the model's row order d rows apart; the file stores
        // rows in the hash order of the build, so the distance in the file is whatever that order makes of it)
        let d = [255usize, 256, 65_534, 65_535, 65_535, 65_536][c.n_sel as usize % 6];
        let p = 100 + (c.salt % 3000) as usize;
        for (i, r) in t.rows.values_mut().enumerate() {
            *r = if i == p { vec![b'A', b'R'] } else if i == p + d { vec![b'G', b'R'] } else { vec![b'A', b'A'] };
        }
    }
    // a quarter of the cases request no filtering at all, so that exactly `rows` columns are written
    // (output writers that work in blocks meet the block sizes exactly)
    let mut c = c.clone();
    if c.salt % 4 == 0 {
        c.flags = Flags { kind: FilterKind::NoFilter, ambig_as_missing: false, ambig_mask: c.flags.ambig_mask, no_gap_only: false, freq: Freq::Zero };
    }
    if sparse {
        c.flags = Flags { kind: if c.salt % 4 == 1 { FilterKind::NoAmbigOrConst } else { FilterKind::NoConst }, ambig_as_missing: false, ambig_mask: false, no_gap_only: false, freq: Freq::Zero };
    }
    let c = &c;
    let sp = spec(&c.flags, n);
    let r: Result<(usize, usize), Outcome> = (|| {
        let aln = if c.via_cli {
            let d = ctx.case_dir();
            let res = if c.wide { save_table::<u128>(&t, k, false, &d.join("t.skf"), false) } else { save_table::<u64>(&t, k, false, &d.join("t.skf"), false) };
            res.map_err(Outcome::Infra)?;
            let mut args: Vec<String> = vec!["align".into()];
            args.extend(align_args(&c.flags, n));
            args.push("t.skf".into());
            let argv: Vec<&str> = args.iter().map(|s| s.as_str()).collect();
            let o = run_ska(ctx, &d, &argv);
            let res = must_ok(&o, &format!("ska {}", args.join(" "))).map(|_| model::parse_fasta(&o.out_str()));
            ctx.done(&d);
            res?
        } else if c.wide {
            inproc_align::<u128>(&t, k, false, &c.flags).map_err(Outcome::Fail)?
        } else {
            inproc_align::<u64>(&t, k, false, &c.flags).map_err(Outcome::Fail)?
        };
        compare_align(&aln, &t, &sp).map_err(Outcome::Fail)
    })();
    match r {
        Err(Outcome::Fail(m)) => Outcome::Fail(format!("k={k} table of {n} samples x {rows} rows (salt {}, gaps {}%, codes {}%), flags {:?} (threshold {}), via_cli={}: {m}", c.salt, c.pgap, c.pamb, c.flags, sp.min_count, c.via_cli)),
        Err(o) => o,
        Ok((kept, masked)) => {
            let removed = rows - kept;
            let mut cl: Vec<&'static str> = vec![];
            if n % 8 != 0 { cl.push("samples_not_multiple_of_8"); }
            if rows % 1024 == 0 || rows % 256 == 0 { cl.push("rows_on_block_size"); }
            if c.via_cli { cl.push("cli"); }
            if n >= 65_535 { cl.push(">=65535_samples"); }
            if sparse { cl.push("two_variable_rows_in_a_long_constant_table"); }
            pass((removed > 0 && kept > 0) || masked > 0, key_of(&(k, n, rows, c.salt, c.pgap, c.pamb, &c.flags, c.via_cli)), cl)
        }
    }
}

const BIG_RULE: &str = "generated: tables of 2..200 samples (half of them with counts on and next to 8,16,32,64,128) x 255..65536 rows (on and next to 256,1024,2048,4096, also 8192 and 65535/65536 with up to 17 samples; one case in sixteen with 65535, 65536, 65537 or 70001 samples and 12-41 rows; a quarter of the cases unfiltered, so that exactly that many columns are written), k=17 (64-bit) or k=35 (128-bit), written through the public API; rows constant, constant with gaps, constant except for one sample at any column (also the last ones), two alleles split at a column, or random symbols with generated gap / ambiguity-code densities; all filter flags and min-freq selectors of the inproc stage; a quarter of the cases through ska align on the saved file. Oracle: multiset of emitted columns == model filter, names in order. Non-trivial: the filter removes and keeps rows, or masks a symbol.";

const RULE: &str = "generated: arbitrary symbol tables (1-12 samples, 1-60 rows over ACGT, 11 ambiguity codes and '-', per-case densities, constant and constant-plus-gap rows, each row >=1 non-gap) built through the public API; 4 filters x ambig-as-missing x ambig-mask x no-gap-only-sites; min-freq in {0,1,(j-1/2)/n,m/8}; plus a second, stricter setting. Oracle: multiset of emitted columns == model filter (threshold max(1,ceil(f n))), names in order, equal lengths; stricter output is a sub-multiset of the laxer. Non-trivial: the filter removes >=1 row and keeps >=1, or masks >=1 symbol in a kept row; distinct by (flags, table).";

fn show(c: &Case) -> serde_json::Value {
    let t = c.t.table();
    json!({"k": c.t.k, "flags": c.flags, "min_freq": c.flags.freq.value(t.nsamples()), "rows": t.rows.iter().take(12).map(|(a, r)| format!("{} {}", model::show_arms(a), lossy(r))).collect::<Vec<_>>()})
}

fn stages(tier: Tier) -> Vec<Box<dyn Stage>> {
    vec![
        gen_stage_show("inproc", RULE, tier.pick(24_000, 400_000), 1500, case_strategy, |c, ctx| check(c, ctx, false), show),
        gen_stage_show("cli", RULE, tier.pick(1200, 16_000), 200, case_strategy, |c, ctx| check(c, ctx, true), show),
        gen_stage_show("wide_and_long", BIG_RULE, tier.pick(480, 8000), 30, big_strategy, check_big, |c| { let (k, n, rows) = big_dims(c); json!({"k": k, "samples": n, "rows": rows, "salt": c.salt, "flags": c.flags, "via_cli": c.via_cli}) }),
        gen_stage_show("built_from_fasta", "the same generated tables (at most 24 rows) reached through FASTA: for every cell one record L.x.R per base x of the cell's code set, ska build --single-strand; the built table must equal the intended one (nk --full-info) and ska align with the generated flags must emit the model's columns. Non-trivial as above.", tier.pick(800, 10_000), 150, case_strategy, check_fasta, show),
    ]
}

pub fn def() -> PropDef {
    PropDef {
        id: "C06",
        level: "exploration",
        assumptions: &[
            "min-freq values are chosen so that ceil(f*n) is not affected by floating-point noise (DESIGN §7)",
            "under --no-gap-only-sites the gap is ignored for no-const and for no-ambig-or-const (CLI help text)",
            "tables are injected through MergeSkaDict::build_from_array (public API) or, in the built_from_fasta stage, built from FASTA records (one per cell base, single-strand)",
        ],
        stages,
        post: None,
    }
}
