//! Engine: seeded parallel proptest runners, counters, evidence, replay files, exit codes.
//!
//! A property is a list of stages. A generated stage (`GenStage`) owns a proptest strategy
//! and an oracle; an enumeration stage implements `Stage` itself. Every random choice is made
//! by the strategy (seeded from VERIF_SEED), so a run is a function of (tree, seed, tier).

use std::collections::{BTreeMap, HashSet};
use std::fmt::Debug;
use std::path::{Path, PathBuf};
use std::sync::atomic::{AtomicBool, AtomicU64, Ordering};
use std::sync::Mutex;
use std::time::Instant;

use proptest::strategy::{BoxedStrategy, Strategy};
use proptest::test_runner::{Config, RngSeed, TestCaseError, TestError, TestRunner};
use serde::de::DeserializeOwned;
use serde::Serialize;
use serde_json::{json, Value};

pub const WORKERS: usize = 16;

#[derive(Clone, Copy, PartialEq, Eq, Debug)]
pub enum Tier {
    Quick,
    Thorough,
}

impl Tier {
    pub fn name(&self) -> &'static str {
        match self {
            Tier::Quick => "quick",
            Tier::Thorough => "thorough",
        }
    }
    /// pick a count by tier
    pub fn pick(&self, quick: u32, thorough: u32) -> u32 {
        let scale: f64 = std::env::var("VERIF_SCALE")
            .ok()
            .and_then(|s| s.parse().ok())
            .unwrap_or(1.0);
        let base = match self {
            Tier::Quick => quick,
            Tier::Thorough => thorough,
        };
        ((base as f64 * scale).ceil() as u32).max(1)
    }
}

/// What the oracle says about one case
#[derive(Debug)]
pub enum Outcome {
    /// Property held. `nontrivial`: by the stage's stated rule. `key`: hash of the canonical
    /// case (for distinctness). `classes`: generator classes this case falls in.
    Pass {
        nontrivial: bool,
        key: u64,
        classes: Vec<&'static str>,
    },
    /// Case outside the property's domain (precondition not met by construction)
    Reject(String),
    /// Could not decide this case (documented refusal of the tool that the property allows,
    /// e.g. optimiser did not converge); never a violation
    Inconclusive(String),
    /// Infrastructure problem (spawn failure, watchdog): the whole run becomes exit 2
    Infra(String),
    /// Property violated, with explanation
    Fail(String),
}

pub fn pass(nontrivial: bool, key: u64, classes: Vec<&'static str>) -> Outcome {
    Outcome::Pass {
        nontrivial,
        key,
        classes,
    }
}

/// Per-worker context handed to oracles
pub struct Ctx {
    pub scratch: PathBuf,
    pub ska: PathBuf,
    pub tier: Tier,
    /// replay mode: be verbose
    pub replay: bool,
    pub counter: std::cell::Cell<u64>,
}

impl Ctx {
    /// a fresh empty directory for one case (caller removes it with `done`)
    pub fn case_dir(&self) -> PathBuf {
        let n = self.counter.get();
        self.counter.set(n + 1);
        let d = self.scratch.join(format!("c{n}"));
        let _ = std::fs::remove_dir_all(&d);
        std::fs::create_dir_all(&d).expect("scratch dir");
        d
    }
    pub fn done(&self, d: &Path) {
        let _ = std::fs::remove_dir_all(d);
    }
}

#[derive(Default)]
pub struct StageReport {
    pub name: String,
    pub evaluations: u64,
    pub nontrivial_keys: HashSet<u64>,
    pub classes: BTreeMap<String, u64>,
    pub rejected: u64,
    pub inconclusive: u64,
    pub inconclusive_samples: Vec<String>,
    pub samples: Vec<Value>,
    pub exhaustive: Option<bool>,
    pub rule: String,
    pub extra: BTreeMap<String, Value>,
}

impl StageReport {
    pub fn class(&mut self, c: &str, n: u64) {
        *self.classes.entry(c.to_string()).or_insert(0) += n;
    }
    fn merge(&mut self, o: StageReport) {
        self.evaluations += o.evaluations;
        self.nontrivial_keys.extend(o.nontrivial_keys);
        for (k, v) in o.classes {
            *self.classes.entry(k).or_insert(0) += v;
        }
        self.rejected += o.rejected;
        self.inconclusive += o.inconclusive;
        for s in o.inconclusive_samples {
            if self.inconclusive_samples.len() < 3 {
                self.inconclusive_samples.push(s);
            }
        }
        for s in o.samples {
            if self.samples.len() < 4 {
                self.samples.push(s);
            }
        }
    }
}

pub struct Violation {
    pub stage: String,
    pub case: Value,
    pub message: String,
    pub worker: usize,
}

pub struct Runtime {
    pub id: &'static str,
    pub tier: Tier,
    pub seed: u64,
    pub ska: PathBuf,
    pub scratch_root: PathBuf,
    pub verif_root: PathBuf,
    pub stages: Vec<StageReport>,
    pub violations: Vec<Violation>,
    pub infra: Vec<String>,
    pub known_findings: Vec<String>,
    pub start: Instant,
}

pub static CLI_CALLS: AtomicU64 = AtomicU64::new(0);

pub fn splitmix64(mut x: u64) -> u64 {
    x = x.wrapping_add(0x9E37_79B9_7F4A_7C15);
    let mut z = x;
    z = (z ^ (z >> 30)).wrapping_mul(0xBF58_476D_1CE4_E5B9);
    z = (z ^ (z >> 27)).wrapping_mul(0x94D0_49BB_1331_11EB);
    z ^ (z >> 31)
}

pub fn fnv(s: &[u8]) -> u64 {
    let mut h: u64 = 0xcbf29ce484222325;
    for b in s {
        h ^= *b as u64;
        h = h.wrapping_mul(0x100000001b3);
    }
    h
}

/// hash of any serialisable value (distinctness key)
pub fn key_of<T: Serialize>(v: &T) -> u64 {
    fnv(serde_json::to_string(v).unwrap_or_default().as_bytes())
}

pub trait Stage: Sync {
    fn name(&self) -> String;
    fn run(&self, rt: &mut Runtime);
    /// re-run one saved case; returns the oracle's outcome
    fn replay(&self, rt: &Runtime, case: Value) -> Outcome;
}

/// Generated stage: strategy + oracle
pub struct GenStage<C: 'static> {
    pub name: &'static str,
    pub rule: &'static str,
    pub cases: u32,
    pub max_shrink: u32,
    pub strategy: Box<dyn Fn() -> BoxedStrategy<C> + Sync>,
    pub check: Box<dyn Fn(&C, &Ctx) -> Outcome + Sync>,
    /// how to show a case in evidence samples (default: its JSON)
    pub show: Option<Box<dyn Fn(&C) -> Value + Sync>>,
}

impl<C> GenStage<C>
where
    C: Clone + Debug + Serialize + DeserializeOwned + Send + 'static,
{
    fn worker(
        &self,
        rt_id: &str,
        seed: u64,
        tier: Tier,
        ska: &Path,
        scratch_root: &Path,
        w: usize,
        cases: u32,
    ) -> (StageReport, Option<(Value, String)>, Vec<String>) {
        let wseed = splitmix64(
            seed ^ fnv(rt_id.as_bytes()) ^ fnv(self.name.as_bytes()).rotate_left(17)
                ^ ((w as u64) << 48),
        );
        let mut config = Config::default();
        config.cases = cases;
        config.failure_persistence = None;
        config.rng_seed = RngSeed::Fixed(wseed);
        config.max_shrink_iters = self.max_shrink;
        config.max_global_rejects = cases.saturating_mul(20).max(10_000);
        config.max_local_rejects = 1_000_000;
        config.verbose = 0;
        let mut runner = TestRunner::new(config);
        let scratch = scratch_root.join(format!("{}-w{}", self.name, w));
        let _ = std::fs::remove_dir_all(&scratch);
        std::fs::create_dir_all(&scratch).expect("scratch");
        let ctx = Ctx {
            scratch: scratch.clone(),
            ska: ska.to_path_buf(),
            tier,
            replay: false,
            counter: std::cell::Cell::new(0),
        };
        let rep = std::cell::RefCell::new(StageReport::default());
        let failed = std::cell::Cell::new(false);
        let infra = std::cell::RefCell::new(Vec::<String>::new());
        let strat = (self.strategy)();
        let result = runner.run(&strat, |case| {
            if !infra.borrow().is_empty() {
                return Ok(());
            }
            let out = match std::panic::catch_unwind(std::panic::AssertUnwindSafe(|| {
                (self.check)(&case, &ctx)
            })) {
                Ok(o) => o,
                Err(e) => {
                    let msg = if let Some(s) = e.downcast_ref::<String>() {
                        s.clone()
                    } else if let Some(s) = e.downcast_ref::<&str>() {
                        s.to_string()
                    } else {
                        "panic".to_string()
                    };
                    Outcome::Fail(format!("unexpected panic inside check: {msg}"))
                }
            };
            let counting = !failed.get();
            match out {
                Outcome::Pass {
                    nontrivial,
                    key,
                    classes,
                } => {
                    if counting {
                        let mut r = rep.borrow_mut();
                        r.evaluations += 1;
                        if nontrivial {
                            r.nontrivial_keys.insert(key);
                            if r.samples.len() < 2 && w < 2 {
                                let v = match &self.show {
                                    Some(f) => f(&case),
                                    None => serde_json::to_value(&case).unwrap_or(Value::Null),
                                };
                                r.samples.push(v);
                            }
                        }
                        for c in classes {
                            *r.classes.entry(c.to_string()).or_insert(0) += 1;
                        }
                    }
                    Ok(())
                }
                Outcome::Reject(why) => {
                    if counting {
                        rep.borrow_mut().rejected += 1;
                    }
                    Err(TestCaseError::reject(why))
                }
                Outcome::Inconclusive(why) => {
                    if counting {
                        let mut r = rep.borrow_mut();
                        r.evaluations += 1;
                        r.inconclusive += 1;
                        if r.inconclusive_samples.len() < 3 {
                            r.inconclusive_samples.push(why);
                        }
                    }
                    Ok(())
                }
                Outcome::Infra(why) => {
                    infra.borrow_mut().push(why);
                    Ok(())
                }
                Outcome::Fail(why) => {
                    if counting {
                        rep.borrow_mut().evaluations += 1;
                    }
                    failed.set(true);
                    Err(TestCaseError::fail(why))
                }
            }
        });
        let _ = std::fs::remove_dir_all(&scratch);
        let mut infra_v = infra.into_inner();
        let failure = match result {
            Ok(()) => None,
            Err(TestError::Fail(reason, value)) => Some((
                serde_json::to_value(&value).unwrap_or(Value::Null),
                reason.message().to_string(),
            )),
            Err(TestError::Abort(reason)) => {
                infra_v.push(format!(
                    "stage {} worker {w}: generator aborted: {}",
                    self.name,
                    reason.message()
                ));
                None
            }
        };
        (rep.into_inner(), failure, infra_v)
    }
}

impl<C> Stage for GenStage<C>
where
    C: Clone + Debug + Serialize + DeserializeOwned + Send + 'static,
{
    fn name(&self) -> String {
        self.name.to_string()
    }

    fn run(&self, rt: &mut Runtime) {
        let per = (self.cases as usize).div_ceil(WORKERS).max(1) as u32;
        let nworkers = if (self.cases as usize) < WORKERS {
            self.cases.max(1) as usize
        } else {
            WORKERS
        };
        let results: Mutex<Vec<(usize, StageReport, Option<(Value, String)>, Vec<String>)>> =
            Mutex::new(Vec::new());
        std::thread::scope(|s| {
            for w in 0..nworkers {
                let results = &results;
                let rt_id = rt.id;
                let seed = rt.seed;
                let tier = rt.tier;
                let ska = rt.ska.clone();
                let scratch_root = rt.scratch_root.clone();
                s.spawn(move || {
                    let (rep, fail, infra) =
                        self.worker(rt_id, seed, tier, &ska, &scratch_root, w, per);
                    results.lock().unwrap().push((w, rep, fail, infra));
                });
            }
        });
        let mut results = results.into_inner().unwrap();
        results.sort_by_key(|r| r.0);
        let mut total = StageReport {
            name: self.name.to_string(),
            rule: self.rule.to_string(),
            ..Default::default()
        };
        for (w, rep, fail, infra) in results {
            total.merge(rep);
            if let Some((case, message)) = fail {
                rt.violations.push(Violation {
                    stage: self.name.to_string(),
                    case,
                    message,
                    worker: w,
                });
            }
            rt.infra.extend(infra);
        }
        rt.stages.push(total);
    }

    fn replay(&self, rt: &Runtime, case: Value) -> Outcome {
        let c: C = match serde_json::from_value(case) {
            Ok(c) => c,
            Err(e) => return Outcome::Infra(format!("cannot decode replay case: {e}")),
        };
        let scratch = rt.scratch_root.join(format!("{}-replay", self.name));
        let _ = std::fs::remove_dir_all(&scratch);
        std::fs::create_dir_all(&scratch).expect("scratch");
        let ctx = Ctx {
            scratch: scratch.clone(),
            ska: rt.ska.clone(),
            tier: rt.tier,
            replay: true,
            counter: std::cell::Cell::new(0),
        };
        let out = match std::panic::catch_unwind(std::panic::AssertUnwindSafe(|| {
            (self.check)(&c, &ctx)
        })) {
            Ok(o) => o,
            Err(_) => Outcome::Fail("unexpected panic inside check".to_string()),
        };
        let _ = std::fs::remove_dir_all(&scratch);
        out
    }
}

/// GenStage whose evidence samples are rendered by `show` (materialised case)
pub fn gen_stage_show<C, S, F, H>(
    name: &'static str,
    rule: &'static str,
    cases: u32,
    max_shrink: u32,
    strategy: S,
    check: F,
    show: H,
) -> Box<dyn Stage>
where
    C: Clone + Debug + Serialize + DeserializeOwned + Send + 'static,
    S: Fn() -> BoxedStrategy<C> + Sync + 'static,
    F: Fn(&C, &Ctx) -> Outcome + Sync + 'static,
    H: Fn(&C) -> Value + Sync + 'static,
{
    Box::new(GenStage {
        name,
        rule,
        cases,
        max_shrink,
        strategy: Box::new(strategy),
        check: Box::new(check),
        show: Some(Box::new(show)),
    })
}

/// helper to build a GenStage with less noise
pub fn gen_stage<C, S, F>(
    name: &'static str,
    rule: &'static str,
    cases: u32,
    max_shrink: u32,
    strategy: S,
    check: F,
) -> Box<dyn Stage>
where
    C: Clone + Debug + Serialize + DeserializeOwned + Send + 'static,
    S: Fn() -> BoxedStrategy<C> + Sync + 'static,
    F: Fn(&C, &Ctx) -> Outcome + Sync + 'static,
{
    Box::new(GenStage {
        name,
        rule,
        cases,
        max_shrink,
        strategy: Box::new(strategy),
        check: Box::new(check),
        show: None,
    })
}

pub fn boxed<S: Strategy + 'static>(s: S) -> BoxedStrategy<S::Value> {
    s.boxed()
}

static QUIET: AtomicBool = AtomicBool::new(false);

pub fn install_quiet_panic_hook() {
    if !QUIET.swap(true, Ordering::SeqCst) {
        std::panic::set_hook(Box::new(|_| {}));
    }
}

impl Runtime {
    pub fn new(id: &'static str, tier: Tier) -> Runtime {
        let seed: u64 = std::env::var("VERIF_SEED")
            .ok()
            .and_then(|s| s.trim().parse::<i128>().ok())
            .map(|v| v as u64)
            .unwrap_or(1);
        let verif_root = PathBuf::from(
            std::env::var("VERIF_ROOT").unwrap_or_else(|_| "/verif".to_string()),
        );
        let ska = PathBuf::from(
            std::env::var("VERIF_SKA")
                .unwrap_or_else(|_| format!("{}/target/cli/release/ska", verif_root.display())),
        );
        let scratch_root = verif_root
            .join("target")
            .join("scratch")
            .join(format!("{}-{}", id, std::process::id()));
        let _ = std::fs::remove_dir_all(&scratch_root);
        std::fs::create_dir_all(&scratch_root).expect("scratch root");
        Runtime {
            id,
            tier,
            seed,
            ska,
            scratch_root,
            verif_root,
            stages: Vec::new(),
            violations: Vec::new(),
            infra: Vec::new(),
            known_findings: Vec::new(),
            start: Instant::now(),
        }
    }

    pub fn cleanup(&self) {
        let _ = std::fs::remove_dir_all(&self.scratch_root);
    }

    /// replay all saved regression inputs of this property (plain checks, no generator)
    pub fn run_regressions(&mut self, stages: &[Box<dyn Stage>]) {
        let dir = self.verif_root.join("regress").join(self.id);
        let mut files: Vec<PathBuf> = match std::fs::read_dir(&dir) {
            Ok(rd) => rd
                .filter_map(|e| e.ok())
                .map(|e| e.path())
                .filter(|p| p.extension().map(|x| x == "json").unwrap_or(false))
                .collect(),
            Err(_) => return,
        };
        files.sort();
        let mut rep = StageReport {
            name: "regress".to_string(),
            rule: "saved shrunk inputs of confirmed defects and of seeded changes, replayed without the generator"
                .to_string(),
            ..Default::default()
        };
        for f in files {
            let txt = match std::fs::read_to_string(&f) {
                Ok(t) => t,
                Err(_) => continue,
            };
            let v: Value = match serde_json::from_str(&txt) {
                Ok(v) => v,
                Err(_) => continue,
            };
            let stage_name = v["stage"].as_str().unwrap_or("").to_string();
            let case = v["case"].clone();
            if let Some(st) = stages.iter().find(|s| s.name() == stage_name) {
                rep.evaluations += 1;
                match st.replay(self, case.clone()) {
                    Outcome::Pass { key, .. } => {
                        rep.nontrivial_keys.insert(key ^ 0x5555);
                    }
                    Outcome::Fail(message) => self.violations.push(Violation {
                        stage: stage_name,
                        case,
                        message: format!("regression {}: {}", f.display(), message),
                        worker: 0,
                    }),
                    Outcome::Infra(m) => self.infra.push(m),
                    _ => {}
                }
            }
        }
        if rep.evaluations > 0 {
            self.stages.push(rep);
        }
    }

    pub fn write_replay(&self, v: &Violation, n: usize) -> PathBuf {
        let dir = self.verif_root.join("replays");
        let _ = std::fs::create_dir_all(&dir);
        let path = dir.join(format!("{}-{}-{}-{}.json", self.id, self.tier.name(), self.seed, n));
        let doc = json!({
            "property": self.id,
            "stage": v.stage,
            "seed": self.seed,
            "tier": self.tier.name(),
            "worker": v.worker,
            "message": v.message,
            "case": v.case,
        });
        let _ = std::fs::write(&path, serde_json::to_string_pretty(&doc).unwrap());
        path
    }

    /// Writes evidence, prints the verdict lines, returns the exit code
    pub fn finish(&mut self, level: &str, assumptions: &[&str]) -> i32 {
        let wall = self.start.elapsed().as_secs_f64();
        let mut evaluations = 0u64;
        let mut distinct = 0u64;
        let mut samples: Vec<Value> = Vec::new();
        let mut stages_json = Vec::new();
        let mut rules = Vec::new();
        let mut rejected = 0;
        let mut inconclusive = 0;
        let mut all_exhaustive = !self.stages.is_empty();
        let mut any_exhaustive = false;
        for s in &self.stages {
            evaluations += s.evaluations;
            distinct += s.nontrivial_keys.len() as u64;
            rejected += s.rejected;
            inconclusive += s.inconclusive;
            for x in &s.samples {
                samples.push(json!({"stage": s.name, "case": x}));
            }
            if !s.rule.is_empty() {
                rules.push(format!("[{}] {}", s.name, s.rule));
            }
            match s.exhaustive {
                Some(true) => any_exhaustive = true,
                _ => all_exhaustive = false,
            }
            let mut sj = json!({
                "stage": s.name,
                "evaluations": s.evaluations,
                "distinct_nontrivial": s.nontrivial_keys.len(),
                "classes": s.classes,
                "rejected_by_precondition": s.rejected,
                "inconclusive": s.inconclusive,
            });
            if !s.inconclusive_samples.is_empty() {
                sj["inconclusive_samples"] = json!(s.inconclusive_samples);
            }
            if let Some(e) = s.exhaustive {
                sj["exhaustive"] = json!(e);
            }
            for (k, v) in &s.extra {
                sj[k] = v.clone();
            }
            stages_json.push(sj);
        }
        if samples.is_empty() {
            samples.push(json!("no non-trivial case was generated in this run"));
        }
        let mut coverage = json!({
            "evaluations": evaluations,
            "distinct_nontrivial": distinct,
            "rule": rules.join(" || "),
            "samples": samples,
            "stages": stages_json,
            "rejected_by_precondition": rejected,
            "inconclusive": inconclusive,
            "cli_calls": CLI_CALLS.load(Ordering::Relaxed),
            "known_findings_reported": self.known_findings,
            "infrastructure_problems": self.infra,
        });
        if all_exhaustive {
            coverage["exhaustive"] = json!(true);
        } else if any_exhaustive {
            coverage["exhaustive_stages"] = json!(self
                .stages
                .iter()
                .filter(|s| s.exhaustive == Some(true))
                .map(|s| s.name.clone())
                .collect::<Vec<_>>());
        }
        let ev = json!({
            "property_id": self.id,
            "tier": self.tier.name(),
            "seed": self.seed as i64,
            "level": level,
            "coverage": coverage,
            "assumptions": assumptions,
            "wall_s": (wall * 100.0).round() / 100.0,
            "violations": self.violations.len(),
        });
        let evdir = self.verif_root.join("evidence");
        let _ = std::fs::create_dir_all(&evdir);
        let evpath = evdir.join(format!("{}.json", self.id));
        if let Err(e) = std::fs::write(&evpath, serde_json::to_string_pretty(&ev).unwrap()) {
            eprintln!("cannot write evidence {}: {e}", evpath.display());
        }
        for k in &self.known_findings {
            println!("KNOWN-FINDING: property={} {}", self.id, k);
        }
        println!(
            "{} {} seed={} evaluations={} distinct_nontrivial={} rejected={} inconclusive={} cli_calls={} wall={:.1}s",
            self.id,
            self.tier.name(),
            self.seed,
            evaluations,
            distinct,
            rejected,
            inconclusive,
            CLI_CALLS.load(Ordering::Relaxed),
            wall
        );
        self.cleanup();
        if !self.violations.is_empty() {
            // report the first (lowest stage order, lowest worker) violation
            let v = &self.violations[0];
            let path = self.write_replay(v, 0);
            for (i, other) in self.violations.iter().enumerate().skip(1).take(7) {
                self.write_replay(other, i);
            }
            println!("  stage={} message={}", v.stage, truncate(&v.message, 2000));
            println!("VIOLATION property={} replay={}", self.id, path.display());
            return 1;
        }
        if !self.infra.is_empty() {
            println!("INCONCLUSIVE property={} {}", self.id, truncate(&self.infra[0], 500));
            return 2;
        }
        println!("OK property={}", self.id);
        0
    }
}

pub fn truncate(s: &str, n: usize) -> String {
    if s.len() <= n {
        s.to_string()
    } else {
        let mut end = n;
        while !s.is_char_boundary(end) {
            end -= 1;
        }
        format!("{}…[{} more bytes]", &s[..end], s.len() - end)
    }
}

/// Enumeration stage: the body walks a finite domain completely, fills the report and
/// returns the violations it found as (case, message).
pub struct EnumStage {
    pub name: &'static str,
    pub rule: &'static str,
    pub body: Box<dyn Fn(&Runtime, &mut StageReport) -> Vec<(Value, String)> + Sync>,
}

impl Stage for EnumStage {
    fn name(&self) -> String {
        self.name.to_string()
    }
    fn run(&self, rt: &mut Runtime) {
        let mut rep = StageReport {
            name: self.name.to_string(),
            rule: self.rule.to_string(),
            ..Default::default()
        };
        let viol = (self.body)(rt, &mut rep);
        for (case, message) in viol.into_iter().take(8) {
            rt.violations.push(Violation {
                stage: self.name.to_string(),
                case,
                message,
                worker: 0,
            });
        }
        rt.stages.push(rep);
    }
    fn replay(&self, rt: &Runtime, _case: Value) -> Outcome {
        // the domain is finite and cheap: re-enumerate it
        let mut rep = StageReport::default();
        let viol = (self.body)(rt, &mut rep);
        match viol.into_iter().next() {
            Some((case, message)) => Outcome::Fail(format!("{message} case={case}")),
            None => pass(true, 0, vec![]),
        }
    }
}

pub fn enum_stage<F>(name: &'static str, rule: &'static str, body: F) -> Box<dyn Stage>
where
    F: Fn(&Runtime, &mut StageReport) -> Vec<(Value, String)> + Sync + 'static,
{
    Box::new(EnumStage {
        name,
        rule,
        body: Box::new(body),
    })
}
