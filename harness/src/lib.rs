//! Library behind the per-property check binaries: `cNN [CNN] <quick|thorough> [--replay FILE]`
pub mod cli;
pub mod engine;
pub mod gen;
pub mod model;
pub mod props;

use engine::{Outcome, Runtime, Tier};

fn usage() -> ! {
    eprintln!("usage: cNN [CNN] <quick|thorough> [--replay FILE]");
    std::process::exit(2);
}

pub fn main_for(prop: props::PropDef) -> ! {
    let args: Vec<String> = std::env::args().collect();
    if args.len() < 2 {
        usage();
    }
    let (mut tier, mut replay) = (Tier::Quick, None);
    // the property id may be repeated as first argument
    let mut i = if args[1].eq_ignore_ascii_case(prop.id) { 2 } else { 1 };
    while i < args.len() {
        match args[i].as_str() {
            "quick" => tier = Tier::Quick,
            "thorough" => tier = Tier::Thorough,
            "--replay" => {
                i += 1;
                replay = args.get(i).cloned();
                if replay.is_none() {
                    usage();
                }
            }
            _ => usage(),
        }
        i += 1;
    }
    engine::install_quiet_panic_hook();
    let mut rt = Runtime::new(prop.id, tier);
    if !rt.ska.exists() {
        println!("INCONCLUSIVE property={} ska binary {} missing (run ./setup.sh)", prop.id, rt.ska.display());
        std::process::exit(2);
    }
    let stages = (prop.stages)(tier);
    if let Some(file) = replay {
        let txt = match std::fs::read_to_string(&file) {
            Ok(t) => t,
            Err(e) => {
                println!("INCONCLUSIVE cannot read replay file {file}: {e}");
                std::process::exit(2);
            }
        };
        let v: serde_json::Value = match serde_json::from_str(&txt) {
            Ok(v) => v,
            Err(e) => {
                println!("INCONCLUSIVE cannot parse replay file {file}: {e}");
                std::process::exit(2);
            }
        };
        let stage = v["stage"].as_str().unwrap_or("").to_string();
        let Some(st) = stages.iter().find(|s| s.name() == stage) else {
            println!("INCONCLUSIVE replay file names unknown stage '{stage}'");
            std::process::exit(2);
        };
        let out = st.replay(&rt, v["case"].clone());
        rt.cleanup();
        match out {
            Outcome::Fail(m) => {
                println!("  stage={stage} message={m}");
                println!("VIOLATION property={} replay={}", prop.id, file);
                std::process::exit(1);
            }
            Outcome::Infra(m) => {
                println!("INCONCLUSIVE property={} {m}", prop.id);
                std::process::exit(2);
            }
            other => {
                println!("replay of {file}: {:?}", other);
                println!("OK property={}", prop.id);
                std::process::exit(0);
            }
        }
    }
    rt.run_regressions(&stages);
    for st in &stages {
        st.run(&mut rt);
    }
    if let Some(post) = prop.post {
        post(&mut rt);
    }
    let code = rt.finish(prop.level, prop.assumptions);
    std::process::exit(code);
}
