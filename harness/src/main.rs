//! vcheck <ID> <quick|thorough> [--replay FILE]
mod cli;
mod engine;
mod gen;
mod model;
mod props;

use engine::{Outcome, Runtime, Tier};

fn usage() -> ! {
    eprintln!("usage: vcheck <C01..C20> <quick|thorough> [--replay FILE]");
    std::process::exit(2);
}

fn main() {
    let args: Vec<String> = std::env::args().collect();
    if args.len() < 3 {
        usage();
    }
    let id_arg = args[1].to_uppercase();
    let (mut tier, mut replay) = (Tier::Quick, None);
    let mut i = 2;
    while i < args.len() {
        match args[i].as_str() {
            "quick" => tier = Tier::Quick,
            "thorough" => tier = Tier::Thorough,
            "--replay" => {
                i += 1;
                replay = args.get(i).cloned();
                if replay.is_none() {
                    usage();
                }
            }
            _ => usage(),
        }
        i += 1;
    }
    let Some(prop) = props::lookup(&id_arg) else {
        eprintln!("unknown property {id_arg}");
        std::process::exit(2);
    };
    engine::install_quiet_panic_hook();
    let mut rt = Runtime::new(prop.id, tier);
    if !rt.ska.exists() {
        println!("INCONCLUSIVE property={} ska binary {} missing (run ./setup.sh)", prop.id, rt.ska.display());
        std::process::exit(2);
    }
    let stages = (prop.stages)(tier);
    if let Some(file) = replay {
        let txt = match std::fs::read_to_string(&file) {
            Ok(t) => t,
            Err(e) => {
                println!("INCONCLUSIVE cannot read replay file {file}: {e}");
                std::process::exit(2);
            }
        };
        let v: serde_json::Value = match serde_json::from_str(&txt) {
            Ok(v) => v,
            Err(e) => {
                println!("INCONCLUSIVE cannot parse replay file {file}: {e}");
                std::process::exit(2);
            }
        };
        let stage = v["stage"].as_str().unwrap_or("").to_string();
        let Some(st) = stages.iter().find(|s| s.name() == stage) else {
            println!("INCONCLUSIVE replay file names unknown stage '{stage}'");
            std::process::exit(2);
        };
        let out = st.replay(&rt, v["case"].clone());
        rt.cleanup();
        match out {
            Outcome::Fail(m) => {
                println!("  stage={stage} message={m}");
                println!("VIOLATION property={} replay={}", prop.id, file);
                std::process::exit(1);
            }
            Outcome::Infra(m) => {
                println!("INCONCLUSIVE property={} {m}", prop.id);
                std::process::exit(2);
            }
            other => {
                println!("replay of {file}: {:?}", other);
                println!("OK property={}", prop.id);
                std::process::exit(0);
            }
        }
    }
    rt.run_regressions(&stages);
    for st in &stages {
        st.run(&mut rt);
    }
    if let Some(post) = prop.post {
        post(&mut rt);
    }
    let code = rt.finish(prop.level, prop.assumptions);
    std::process::exit(code);
}
