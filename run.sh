#!/bin/bash
# run.sh <ID> <quick|thorough> [--replay FILE]
# Rebuilds from /repo's current working tree, then runs the check.
# exit 0 = held on everything explored; 1 = VIOLATION line printed; 2 = inconclusive / infrastructure
set -u
cd "$(dirname "$0")"
ROOT="$(pwd)"
export CARGO_NET_OFFLINE=true
export VERIF_ROOT="$ROOT"
(
  flock 9
  ./setup.sh >/dev/null 2>"$ROOT/target/setup.err" || { cat "$ROOT/target/setup.err"; tail -5 "$ROOT/target/build-harness.log" "$ROOT/target/build-cli.log" 2>/dev/null; exit 2; }
) 9>"$ROOT/.build.lock" || { echo "INCONCLUSIVE property=${1:-?} build failed"; exit 2; }
exec "$ROOT/target/harness/release/vcheck" "$@"
