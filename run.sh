#!/bin/bash
# run.sh <ID> <quick|thorough> [--replay FILE]
# Rebuilds from /repo's current working tree, then runs the check.
# exit 0 = held on everything explored; 1 = VIOLATION line printed; 2 = inconclusive / infrastructure
set -u
cd "$(dirname "$0")"
ROOT="$(pwd)"
export CARGO_NET_OFFLINE=true
export VERIF_ROOT="$ROOT"
mkdir -p "$ROOT/target" "$ROOT/evidence"
BIN="$(echo "${1:-}" | tr 'A-Z' 'a-z')"
case "$BIN" in c[0-2][0-9]) ;; *) echo "usage: run.sh <C01..C20> <quick|thorough> [--replay FILE]"; exit 2 ;; esac
(
  flock 9
  ./setup.sh "$BIN" >"$ROOT/target/setup.out" 2>"$ROOT/target/setup.err" || { cat "$ROOT/target/setup.out" "$ROOT/target/setup.err"; exit 2; }
) 9>"$ROOT/.build.lock" || { echo "INCONCLUSIVE property=${1:-?} build failed (exit 2: no verdict)"; exit 2; }
"$ROOT/target/harness/release/$BIN" "$@"
code=$?
# thorough tier: additional coverage-guided fuzzing for the in-process targets (DESIGN §6)
if [ $code -eq 0 ] && [ "${2:-}" = "thorough" ] && [ "${3:-}" != "--replay" ] && [ "${VERIF_NO_FUZZ:-0}" != "1" ]; then
  case "$1" in
    C01|c01) "$ROOT/tools/fuzz_stage.sh" C01 c01_splitkmer || code=1 ;;
    C04|c04) "$ROOT/tools/fuzz_stage.sh" C04 c04_alnwriter || code=1 ;;
    C16|c16) "$ROOT/tools/fuzz_stage.sh" C16 c16_bits || code=1 ;;
  esac
fi
exit $code
